#!/bin/bash
# Build the engines from files on disk (offline). Each check rebuilds against /repo's current tree anyway.
set -e
cd "$(dirname "$0")"
export CARGO_NET_OFFLINE=true
mkdir -p .work evidence replays
for e in airsym; do
  cp /repo/Cargo.lock engines/$e/Cargo.lock
  (cd engines/$e && CARGO_TARGET_DIR=/verif/.work/target/$e cargo build 2>&1 | tail -2)
done
