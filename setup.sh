#!/bin/bash
# Build the engines from files on disk (offline). Each check rebuilds against /repo's current tree anyway.
set -e
cd "$(dirname "$0")"
export CARGO_NET_OFFLINE=true
mkdir -p .work evidence replays
cp /repo/Cargo.lock engines/airsym/Cargo.lock
(cd engines/airsym && CARGO_TARGET_DIR=/verif/.work/target/airsym cargo build 2>&1 | tail -2)
cp /repo/Cargo.lock engines/replay/Cargo.lock
(cd engines/replay && CARGO_TARGET_DIR=/verif/.work/target/replay cargo build --release 2>&1 | tail -2)
# warm the MIR dump's build cache (dependencies of miden-processor under the nightly toolchain)
(cd /repo/processor && CARGO_TARGET_DIR=/verif/.work/target/mir cargo +nightly rustc --offline --lib --features internals -- -Zunpretty=mir -C debug-assertions=off -C overflow-checks=on > /dev/null 2>&1 || true)
