#![recursion_limit = "512"]
//! airsym: instantiate the real `ProcessorAir` of /repo/air with a symbolic field type and dump the
//! constraint polynomials it evaluates, as expression DAGs, for the SMT side (lib/airq.py).
//!
//! usage: airsym <jobs.json> <out.json>
//! jobs.json: {"jobs": [ {kind: "meta"} | {kind:"transition", name, cur:{col:val}, next:{col:val}, per:{i:val}}
//!                       | {kind:"aux_transition", name, cur:{..}, next:{..}}
//!                       | {kind:"eval", cur:[u64;W], next:[u64;W], per:[u64]}
//!                       | {kind:"assertions", inputs:[u64], outputs:[u64], overflow_addrs:[u64], trace_len}
//!                       | {kind:"aux_assertions", inputs:[u64], outputs:[u64], overflow_addrs:[u64], trace_len, symbolic: bool} ] }
mod sym;
use miden_air::trace::{self, decoder};
use miden_air::{Felt, ProcessorAir, ProvingOptions, PublicInputs, StarkField};
use miden_core::{Operation, ProgramInfo, StackInputs, StackOutputs};
use serde_json::{json, Value};
use sym::*;
use winter_air::{Air, AuxTraceRandElements, EvaluationFrame, TraceInfo, TraceLayout};

fn all_ops() -> Vec<Operation> {
    use Operation::*;
    vec![
        Noop, Assert(0), FmpAdd, FmpUpdate, SDepth, Caller, Clk, Join, Split, Loop, Call, Dyn,
        SysCall, Span, End, Repeat, Respan, Halt, Add, Neg, Mul, Inv, Incr, And, Or, Not, Eq, Eqz,
        Expacc, Ext2Mul, U32split, U32add, U32assert2(Felt::new(0)), U32add3, U32sub, U32mul, U32madd, U32div,
        U32and, U32xor, Pad, Drop, Dup0, Dup1, Dup2, Dup3, Dup4, Dup5, Dup6, Dup7, Dup9, Dup11,
        Dup13, Dup15, Swap, SwapW, SwapW2, SwapW3, SwapDW, MovUp2, MovUp3, MovUp4, MovUp5, MovUp6,
        MovUp7, MovUp8, MovDn2, MovDn3, MovDn4, MovDn5, MovDn6, MovDn7, MovDn8, CSwap, CSwapW,
        Push(Felt::new(0)), AdvPop, AdvPopW, MLoadW, MStoreW, MLoad, MStore, MStream, Pipe, HPerm,
        MpVerify, MrUpdate, FriE2F4, RCombBase,
    ]
}

/// exhaustive match: a new `Operation` variant makes this fail to compile, so `all_ops` cannot
/// silently go stale.
fn op_name(op: &Operation) -> &'static str {
    use Operation::*;
    match op {
        Noop => "Noop", Assert(_) => "Assert", FmpAdd => "FmpAdd", FmpUpdate => "FmpUpdate",
        SDepth => "SDepth", Caller => "Caller", Clk => "Clk", Join => "Join", Split => "Split",
        Loop => "Loop", Call => "Call", Dyn => "Dyn", SysCall => "SysCall", Span => "Span",
        End => "End", Repeat => "Repeat", Respan => "Respan", Halt => "Halt", Add => "Add",
        Neg => "Neg", Mul => "Mul", Inv => "Inv", Incr => "Incr", And => "And", Or => "Or",
        Not => "Not", Eq => "Eq", Eqz => "Eqz", Expacc => "Expacc", Ext2Mul => "Ext2Mul",
        U32split => "U32split", U32add => "U32add", U32assert2(_) => "U32assert2",
        U32add3 => "U32add3", U32sub => "U32sub", U32mul => "U32mul", U32madd => "U32madd",
        U32div => "U32div", U32and => "U32and", U32xor => "U32xor", Pad => "Pad", Drop => "Drop",
        Dup0 => "Dup0", Dup1 => "Dup1", Dup2 => "Dup2", Dup3 => "Dup3", Dup4 => "Dup4",
        Dup5 => "Dup5", Dup6 => "Dup6", Dup7 => "Dup7", Dup9 => "Dup9", Dup11 => "Dup11",
        Dup13 => "Dup13", Dup15 => "Dup15", Swap => "Swap", SwapW => "SwapW", SwapW2 => "SwapW2",
        SwapW3 => "SwapW3", SwapDW => "SwapDW", MovUp2 => "MovUp2", MovUp3 => "MovUp3",
        MovUp4 => "MovUp4", MovUp5 => "MovUp5", MovUp6 => "MovUp6", MovUp7 => "MovUp7",
        MovUp8 => "MovUp8", MovDn2 => "MovDn2", MovDn3 => "MovDn3", MovDn4 => "MovDn4",
        MovDn5 => "MovDn5", MovDn6 => "MovDn6", MovDn7 => "MovDn7", MovDn8 => "MovDn8",
        CSwap => "CSwap", CSwapW => "CSwapW", Push(_) => "Push", AdvPop => "AdvPop",
        AdvPopW => "AdvPopW", MLoadW => "MLoadW", MStoreW => "MStoreW", MLoad => "MLoad",
        MStore => "MStore", MStream => "MStream", Pipe => "Pipe", HPerm => "HPerm",
        MpVerify => "MpVerify", MrUpdate => "MrUpdate", FriE2F4 => "FriE2F4",
        RCombBase => "RCombBase",
    }
}

fn make_air(inputs: &[u64], outputs: &[u64], ovf: &[u64], trace_len: usize) -> ProcessorAir {
    let layout = TraceLayout::new(
        trace::TRACE_WIDTH,
        [trace::AUX_TRACE_WIDTH],
        [trace::AUX_TRACE_RAND_ELEMENTS],
    );
    let ti = TraceInfo::new_multi_segment(layout, trace_len, vec![]);
    let si = StackInputs::try_from_values(inputs.iter().cloned()).expect("stack inputs");
    let so = if outputs.is_empty() {
        StackOutputs::default()
    } else {
        StackOutputs::new(outputs.to_vec(), ovf.to_vec()).expect("stack outputs")
    };
    let pi = PublicInputs::new(ProgramInfo::default(), si, so);
    ProcessorAir::new(ti, pi, ProvingOptions::default().into())
}

fn u64s(v: &Value) -> Vec<u64> {
    v.as_array()
        .map(|a| {
            a.iter()
                .map(|x| match x {
                    Value::String(s) => s.parse::<u64>().unwrap(),
                    _ => x.as_u64().unwrap(),
                })
                .collect()
        })
        .unwrap_or_default()
}

fn apply_consts(row: &mut [Sym], m: &Value) {
    if let Some(o) = m.as_object() {
        for (k, v) in o {
            let col: usize = k.parse().unwrap();
            let val = match v {
                Value::String(s) => s.parse::<u64>().unwrap(),
                _ => v.as_u64().unwrap(),
            };
            row[col] = Sym::c(val);
        }
    }
}

fn meta(air: &ProcessorAir) -> Value {
    let ops: Vec<Value> = all_ops()
        .iter()
        .map(|op| {
            json!({"name": op_name(op), "opcode": op.op_code(), "imm": op.imm_value().is_some()})
        })
        .collect();
    let per: Vec<Vec<String>> = air
        .get_periodic_column_values()
        .iter()
        .map(|c| c.iter().map(|f| f.as_int().to_string()).collect())
        .collect();
    let ctx = air.context();
    json!({
        "ops": ops,
        "periodic": per,
        "num_main_constraints": ctx.num_main_transition_constraints(),
        "num_aux_constraints": ctx.num_aux_transition_constraints(),
        "cols": {
            "TRACE_WIDTH": trace::TRACE_WIDTH,
            "AUX_TRACE_WIDTH": trace::AUX_TRACE_WIDTH,
            "AUX_TRACE_RAND_ELEMENTS": trace::AUX_TRACE_RAND_ELEMENTS,
            "CLK": trace::CLK_COL_IDX,
            "FMP": trace::FMP_COL_IDX,
            "CTX": trace::CTX_COL_IDX,
            "IN_SYSCALL": trace::IN_SYSCALL_COL_IDX,
            "FN_HASH": trace::FN_HASH_OFFSET,
            "DECODER": trace::DECODER_TRACE_OFFSET,
            "DECODER_WIDTH": trace::DECODER_TRACE_WIDTH,
            "OP_BITS": trace::DECODER_TRACE_OFFSET + decoder::OP_BITS_OFFSET,
            "NUM_OP_BITS": decoder::NUM_OP_BITS,
            "OP_BITS_EXTRA": trace::DECODER_TRACE_OFFSET + decoder::OP_BITS_EXTRA_COLS_OFFSET,
            "HASHER_STATE": trace::DECODER_TRACE_OFFSET + decoder::HASHER_STATE_OFFSET,
            "USER_OP_HELPERS": trace::DECODER_TRACE_OFFSET + decoder::USER_OP_HELPERS_OFFSET,
            "NUM_USER_OP_HELPERS": decoder::NUM_USER_OP_HELPERS,
            "IS_LOOP_BODY_FLAG": trace::DECODER_TRACE_OFFSET + decoder::IS_LOOP_BODY_FLAG_COL_IDX,
            "IS_LOOP_FLAG": trace::DECODER_TRACE_OFFSET + decoder::IS_LOOP_FLAG_COL_IDX,
            "IS_CALL_FLAG": trace::DECODER_TRACE_OFFSET + decoder::IS_CALL_FLAG_COL_IDX,
            "IS_SYSCALL_FLAG": trace::DECODER_TRACE_OFFSET + decoder::IS_SYSCALL_FLAG_COL_IDX,
            "STACK": trace::STACK_TRACE_OFFSET,
            "B0": trace::STACK_TRACE_OFFSET + trace::stack::B0_COL_IDX,
            "B1": trace::STACK_TRACE_OFFSET + trace::stack::B1_COL_IDX,
            "H0": trace::STACK_TRACE_OFFSET + trace::stack::H0_COL_IDX,
            "RANGE_M": trace::range::M_COL_IDX,
            "RANGE_V": trace::range::V_COL_IDX,
            "B_RANGE_AUX": trace::range::B_RANGE_COL_IDX,
            "STACK_AUX": trace::STACK_AUX_TRACE_OFFSET,
            "BITWISE_SELECTOR": trace::chiplets::BITWISE_SELECTOR_COL_IDX,
            "BITWISE_A": trace::chiplets::BITWISE_A_COL_IDX,
            "BITWISE_B": trace::chiplets::BITWISE_B_COL_IDX,
            "BITWISE_A_BITS": trace::chiplets::BITWISE_A_COL_RANGE.start,
            "BITWISE_B_BITS": trace::chiplets::BITWISE_B_COL_RANGE.start,
            "BITWISE_PREV_OUTPUT": trace::chiplets::BITWISE_PREV_OUTPUT_COL_IDX,
            "BITWISE_OUTPUT": trace::chiplets::BITWISE_OUTPUT_COL_IDX,
            "MEMORY_SELECTORS": trace::chiplets::MEMORY_SELECTORS_COL_IDX,
            "MEMORY_CTX": trace::chiplets::MEMORY_CTX_COL_IDX,
            "MEMORY_ADDR": trace::chiplets::MEMORY_ADDR_COL_IDX,
            "MEMORY_CLK": trace::chiplets::MEMORY_CLK_COL_IDX,
            "MEMORY_V": trace::chiplets::MEMORY_V_COL_RANGE.start,
            "MEMORY_D0": trace::chiplets::MEMORY_D0_COL_IDX,
            "MEMORY_D1": trace::chiplets::MEMORY_D1_COL_IDX,
            "MEMORY_D_INV": trace::chiplets::MEMORY_D_INV_COL_IDX,
            "HASHER_SELECTORS": trace::chiplets::HASHER_SELECTOR_COL_RANGE.start,
            "HASHER_STATE_COLS": trace::chiplets::HASHER_STATE_COL_RANGE.start,
            "HASHER_NODE_INDEX": trace::chiplets::HASHER_NODE_INDEX_COL_IDX,
            "CHIPLETS": trace::CHIPLETS_OFFSET,
            "CHIPLETS_WIDTH": trace::CHIPLETS_WIDTH,
        }
    })
}

fn main() {
    let args: Vec<String> = std::env::args().collect();
    let jobs: Value = serde_json::from_str(&std::fs::read_to_string(&args[1]).unwrap()).unwrap();
    let w = trace::TRACE_WIDTH;
    let aw = trace::AUX_TRACE_WIDTH;
    let default_air = make_air(&[], &[], &[], 64);
    let nper = default_air.get_periodic_column_values().len();
    let nmain = default_air.context().num_main_transition_constraints();
    let naux = default_air.context().num_aux_transition_constraints();
    let mut out = Vec::new();
    for job in jobs["jobs"].as_array().unwrap() {
        let kind = job["kind"].as_str().unwrap();
        match kind {
            "meta" => out.push(meta(&default_air)),
            "transition" => {
                arena_reset();
                let mut cur: Vec<Sym> = (0..w).map(|i| Sym::var(&format!("c{i}"))).collect();
                let mut next: Vec<Sym> = (0..w).map(|i| Sym::var(&format!("n{i}"))).collect();
                let mut per: Vec<Sym> = (0..nper).map(|i| Sym::var(&format!("k{i}"))).collect();
                apply_consts(&mut cur, &job["cur"]);
                apply_consts(&mut next, &job["next"]);
                apply_consts(&mut per, &job["per"]);
                let frame = EvaluationFrame::from_rows(cur, next);
                let mut res = vec![Sym::c(0); nmain];
                default_air.evaluate_transition(&frame, &per, &mut res);
                let roots: Vec<Value> = res.iter().map(|r| r.to_json()).collect();
                out.push(json!({"name": job["name"], "roots": roots, "arena": arena_json()}));
            }
            "opflags" => {
                // the AIR's own composite shift flags of the current row (real OpFlags code)
                arena_reset();
                let mut cur: Vec<Sym> = (0..w).map(|i| Sym::var(&format!("c{i}"))).collect();
                let next: Vec<Sym> = (0..w).map(|i| Sym::var(&format!("n{i}"))).collect();
                apply_consts(&mut cur, &job["cur"]);
                let frame = EvaluationFrame::from_rows(cur, next);
                let flags = miden_air::stack::op_flags::OpFlags::new(&frame);
                let roots: Vec<Value> = vec![flags.left_shift().to_json(), flags.right_shift().to_json(), flags.overflow().to_json()];
                out.push(json!({"name": job["name"], "roots": roots, "arena": arena_json()}));
            }
            "binding" => {
                // native oracle for C02: does altering one element of the statement change the set of
                // boundary assertions (main segment, auxiliary segment for fixed challenges) or the
                // elements that seed the verifier's random coin?
                use winter_math::ToElements;
                use miden_core::{crypto::hash::RpoDigest, Kernel};
                let ins = u64s(&job["inputs"]);
                let outs = u64s(&job["outputs"]);
                let ovf = u64s(&job["overflow_addrs"]);
                // program hash (4 elements) followed by kernel procedure hashes (4 elements each)
                let prog: Vec<u64> = (0..12).map(|k| 1000 + 7 * k as u64).collect();
                let dump = |i: &[u64], o: &[u64], a: &[u64], p: &[u64]| -> Vec<String> {
                    let air = make_air(i, o, a, 64);
                    let mut v: Vec<String> = air
                        .get_assertions()
                        .iter()
                        .map(|x| format!("m:{}:{}:{}", x.column(), x.first_step(), x.values()[0]))
                        .collect();
                    let mut are = winter_air::AuxTraceRandElements::<Felt>::new();
                    are.add_segment_elements((0..trace::AUX_TRACE_RAND_ELEMENTS).map(|k| Felt::new(0x9e3779b97f4a7c15u64.wrapping_mul(k as u64 + 3) % 0xffffffff00000001)).collect());
                    v.extend(air.get_aux_assertions(&are).iter().map(|x| format!("a:{}:{}:{}", x.column(), x.first_step(), x.values()[0])));
                    // coin seed: PublicInputs::to_elements with a two-procedure kernel
                    let dg = |c: &[u64]| RpoDigest::new([Felt::new(c[0]), Felt::new(c[1]), Felt::new(c[2]), Felt::new(c[3])]);
                    let kernel = Kernel::new(&[dg(&p[4..8]), dg(&p[8..12])]).expect("kernel");
                    let pinfo = ProgramInfo::new(dg(&p[0..4]), kernel);
                    let si = StackInputs::try_from_values(i.iter().cloned()).expect("stack inputs");
                    let so = if o.is_empty() { StackOutputs::default() } else { StackOutputs::new(o.to_vec(), a.to_vec()).expect("stack outputs") };
                    let mut seed: Vec<String> = PublicInputs::new(pinfo, si, so).to_elements().iter().map(|e| e.to_string()).collect();
                    seed.sort(); // kernel hashes are kept sorted: compare as a multiset
                    v.push(format!("seed:{}", seed.join(",")));
                    v
                };
                let base = dump(&ins, &outs, &ovf, &prog);
                let mut unbound: Vec<String> = Vec::new();
                let bump = |v: &[u64], k: usize| -> Vec<u64> { let mut w = v.to_vec(); w[k] = (w[k] + 1) % 0xffffffff00000001; w };
                for k in 0..ins.len() { if dump(&bump(&ins, k), &outs, &ovf, &prog) == base { unbound.push(format!("input {k}")); } }
                for k in 0..outs.len() { if dump(&ins, &bump(&outs, k), &ovf, &prog) == base { unbound.push(format!("output {k}")); } }
                for k in 0..ovf.len() { if dump(&ins, &outs, &bump(&ovf, k), &prog) == base { unbound.push(format!("overflow address {k}")); } }
                for k in 0..prog.len() { if dump(&ins, &outs, &ovf, &bump(&prog, k)) == base { unbound.push(if k < 4 { format!("program hash element {k}") } else { format!("kernel hash element {}", k - 4) }); } }
                out.push(json!({"status": "ok", "assertions": base.len(), "unbound": unbound}));
            }
            "aux_transition" => {
                arena_reset();
                let mut cur: Vec<Sym> = (0..w).map(|i| Sym::var(&format!("c{i}"))).collect();
                let mut next: Vec<Sym> = (0..w).map(|i| Sym::var(&format!("n{i}"))).collect();
                apply_consts(&mut cur, &job["cur"]);
                apply_consts(&mut next, &job["next"]);
                let acur: Vec<Sym> = (0..aw).map(|i| Sym::var(&format!("ac{i}"))).collect();
                let anext: Vec<Sym> = (0..aw).map(|i| Sym::var(&format!("an{i}"))).collect();
                let per: Vec<Sym> = (0..nper).map(|i| Sym::var(&format!("k{i}"))).collect();
                let alphas: Vec<Sym> = (0..trace::AUX_TRACE_RAND_ELEMENTS)
                    .map(|i| Sym::var(&format!("al{i}")))
                    .collect();
                let mut are = AuxTraceRandElements::new();
                are.add_segment_elements(alphas);
                let mf = EvaluationFrame::from_rows(cur, next);
                let af = EvaluationFrame::from_rows(acur, anext);
                let mut res = vec![Sym::c(0); naux];
                default_air.evaluate_aux_transition(&mf, &af, &per, &are, &mut res);
                let roots: Vec<Value> = res.iter().map(|r| r.to_json()).collect();
                out.push(json!({"name": job["name"], "roots": roots, "arena": arena_json()}));
            }
            "eval" => {
                let cur: Vec<Felt> = u64s(&job["cur"]).into_iter().map(Felt::new).collect();
                let next: Vec<Felt> = u64s(&job["next"]).into_iter().map(Felt::new).collect();
                let mut per: Vec<Felt> = u64s(&job["per"]).into_iter().map(Felt::new).collect();
                per.resize(nper, Felt::new(0));
                let frame = EvaluationFrame::from_rows(cur, next);
                let mut res = vec![Felt::new(0); nmain];
                default_air.evaluate_transition(&frame, &per, &mut res);
                let r: Vec<String> = res.iter().map(|f| f.as_int().to_string()).collect();
                let mut o = json!({"results": r});
                if job.get("acur").is_some() {
                    let acur: Vec<Felt> = u64s(&job["acur"]).into_iter().map(Felt::new).collect();
                    let anext: Vec<Felt> = u64s(&job["anext"]).into_iter().map(Felt::new).collect();
                    let alphas: Vec<Felt> =
                        u64s(&job["alphas"]).into_iter().map(Felt::new).collect();
                    let mut are = AuxTraceRandElements::new();
                    are.add_segment_elements(alphas);
                    let af = EvaluationFrame::from_rows(acur, anext);
                    let mut ares = vec![Felt::new(0); naux];
                    default_air.evaluate_aux_transition(&frame, &af, &per, &are, &mut ares);
                    let ar: Vec<String> = ares.iter().map(|f| f.as_int().to_string()).collect();
                    o["aux_results"] = json!(ar);
                }
                out.push(o);
            }
            "assertions" => {
                let air = make_air(
                    &u64s(&job["inputs"]),
                    &u64s(&job["outputs"]),
                    &u64s(&job["overflow_addrs"]),
                    job["trace_len"].as_u64().unwrap_or(64) as usize,
                );
                let a: Vec<Value> = air
                    .get_assertions()
                    .iter()
                    .map(|a| {
                        json!({"col": a.column(), "step": a.first_step(), "stride": a.stride(),
                               "values": a.values().iter().map(|f| f.as_int().to_string()).collect::<Vec<_>>()})
                    })
                    .collect();
                out.push(json!({"assertions": a, "last_step": air.last_step()}));
            }
            "aux_assertions" => {
                arena_reset();
                let air = make_air(
                    &u64s(&job["inputs"]),
                    &u64s(&job["outputs"]),
                    &u64s(&job["overflow_addrs"]),
                    job["trace_len"].as_u64().unwrap_or(64) as usize,
                );
                let alphas: Vec<Sym> = (0..trace::AUX_TRACE_RAND_ELEMENTS)
                    .map(|i| Sym::var(&format!("al{i}")))
                    .collect();
                let mut are = AuxTraceRandElements::new();
                are.add_segment_elements(alphas);
                let a: Vec<Value> = air
                    .get_aux_assertions(&are)
                    .iter()
                    .map(|a| {
                        json!({"col": a.column(), "step": a.first_step(), "stride": a.stride(),
                               "values": a.values().iter().map(|f| f.to_json()).collect::<Vec<_>>()})
                    })
                    .collect();
                out.push(json!({"assertions": a, "arena": arena_json(), "last_step": air.last_step()}));
            }
            _ => panic!("unknown job kind {kind}"),
        }
    }
    std::fs::write(&args[2], serde_json::to_string(&json!({"results": out})).unwrap()).unwrap();
}
