//! Symbolic field element: a `Copy` handle that is either a constant (canonical value) or an index
//! into a thread-local expression arena. Implements `FieldElement<BaseField = Felt>` so that the
//! real, generic constraint code of miden-air can be instantiated with it.
use core::fmt;
use core::ops::*;
use miden_air::{Felt, FieldElement, StarkField};
use miden_core::ExtensionOf;
use std::cell::RefCell;
use winter_utils::{
    AsBytes, ByteReader, ByteWriter, Deserializable, DeserializationError, Randomizable,
    Serializable,
};

pub const P: u128 = 18446744069414584321;

#[derive(Clone, Debug)]
pub enum Node {
    Var(String),
    Add(Sym, Sym),
    Sub(Sym, Sym),
    Mul(Sym, Sym),
    Neg(Sym),
    Inv(Sym),
}

thread_local! { pub static ARENA: RefCell<Vec<Node>> = RefCell::new(Vec::new()); }

/// kind 0: constant (canonical value in val); kind 1: node index in val
#[derive(Copy, Clone, Default)]
pub struct Sym {
    pub kind: u32,
    pub val: u64,
}

impl PartialEq for Sym {
    fn eq(&self, o: &Sym) -> bool {
        if self.kind == 0 && o.kind == 0 {
            return self.val == o.val;
        }
        if self.kind == o.kind && self.val == o.val {
            return true;
        }
        // data-dependent control flow in constraint code must never be silently concretised
        panic!("symbolic branch in constraint code: comparison of non-constant Sym values");
    }
}
impl Eq for Sym {}

impl Sym {
    pub const fn c(v: u64) -> Sym {
        Sym { kind: 0, val: v }
    }
    pub fn node(n: Node) -> Sym {
        ARENA.with(|a| {
            let mut a = a.borrow_mut();
            a.push(n);
            Sym { kind: 1, val: (a.len() - 1) as u64 }
        })
    }
    pub fn var(name: &str) -> Sym {
        Sym::node(Node::Var(name.to_string()))
    }
    pub fn is_c(&self) -> bool {
        self.kind == 0
    }
    pub fn to_json(&self) -> serde_json::Value {
        if self.is_c() {
            serde_json::json!({"c": self.val.to_string()})
        } else {
            serde_json::json!({"n": self.val})
        }
    }
}

pub fn arena_reset() {
    ARENA.with(|a| a.borrow_mut().clear());
}

pub fn arena_json() -> serde_json::Value {
    ARENA.with(|a| {
        let a = a.borrow();
        let v: Vec<serde_json::Value> = a
            .iter()
            .map(|n| match n {
                Node::Var(s) => serde_json::json!(["var", s]),
                Node::Add(x, y) => serde_json::json!(["add", x.to_json(), y.to_json()]),
                Node::Sub(x, y) => serde_json::json!(["sub", x.to_json(), y.to_json()]),
                Node::Mul(x, y) => serde_json::json!(["mul", x.to_json(), y.to_json()]),
                Node::Neg(x) => serde_json::json!(["neg", x.to_json()]),
                Node::Inv(x) => serde_json::json!(["inv", x.to_json()]),
            })
            .collect();
        serde_json::Value::Array(v)
    })
}

impl fmt::Debug for Sym {
    fn fmt(&self, f: &mut fmt::Formatter<'_>) -> fmt::Result {
        if self.is_c() {
            write!(f, "{}", self.val)
        } else {
            write!(f, "#{}", self.val)
        }
    }
}
impl fmt::Display for Sym {
    fn fmt(&self, f: &mut fmt::Formatter<'_>) -> fmt::Result {
        fmt::Debug::fmt(self, f)
    }
}
impl Add for Sym {
    type Output = Sym;
    fn add(self, r: Sym) -> Sym {
        if self.is_c() && r.is_c() {
            return Sym::c(((self.val as u128 + r.val as u128) % P) as u64);
        }
        if self.is_c() && self.val == 0 {
            return r;
        }
        if r.is_c() && r.val == 0 {
            return self;
        }
        Sym::node(Node::Add(self, r))
    }
}
impl Sub for Sym {
    type Output = Sym;
    fn sub(self, r: Sym) -> Sym {
        if self.is_c() && r.is_c() {
            return Sym::c(((self.val as u128 + P - r.val as u128) % P) as u64);
        }
        if r.is_c() && r.val == 0 {
            return self;
        }
        Sym::node(Node::Sub(self, r))
    }
}
impl Mul for Sym {
    type Output = Sym;
    fn mul(self, r: Sym) -> Sym {
        if self.is_c() && r.is_c() {
            return Sym::c(((self.val as u128 * r.val as u128) % P) as u64);
        }
        if (self.is_c() && self.val == 0) || (r.is_c() && r.val == 0) {
            return Sym::c(0);
        }
        if self.is_c() && self.val == 1 {
            return r;
        }
        if r.is_c() && r.val == 1 {
            return self;
        }
        Sym::node(Node::Mul(self, r))
    }
}
impl Div for Sym {
    type Output = Sym;
    fn div(self, r: Sym) -> Sym {
        self * r.inv()
    }
}
impl Neg for Sym {
    type Output = Sym;
    fn neg(self) -> Sym {
        if self.is_c() {
            Sym::c(((P - self.val as u128) % P) as u64)
        } else {
            Sym::node(Node::Neg(self))
        }
    }
}
impl AddAssign for Sym {
    fn add_assign(&mut self, r: Sym) {
        *self = *self + r
    }
}
impl SubAssign for Sym {
    fn sub_assign(&mut self, r: Sym) {
        *self = *self - r
    }
}
impl MulAssign for Sym {
    fn mul_assign(&mut self, r: Sym) {
        *self = *self * r
    }
}
impl DivAssign for Sym {
    fn div_assign(&mut self, r: Sym) {
        *self = *self / r
    }
}
impl From<u32> for Sym {
    fn from(v: u32) -> Sym {
        Sym::c(v as u64)
    }
}
impl From<u16> for Sym {
    fn from(v: u16) -> Sym {
        Sym::c(v as u64)
    }
}
impl From<u8> for Sym {
    fn from(v: u8) -> Sym {
        Sym::c(v as u64)
    }
}
impl From<Felt> for Sym {
    fn from(v: Felt) -> Sym {
        Sym::c(v.as_int())
    }
}
impl TryFrom<u64> for Sym {
    type Error = String;
    fn try_from(v: u64) -> Result<Sym, String> {
        Ok(Sym::c((v as u128 % P) as u64))
    }
}
impl TryFrom<u128> for Sym {
    type Error = String;
    fn try_from(v: u128) -> Result<Sym, String> {
        Ok(Sym::c((v % P) as u64))
    }
}
impl<'a> TryFrom<&'a [u8]> for Sym {
    type Error = DeserializationError;
    fn try_from(_: &'a [u8]) -> Result<Sym, Self::Error> {
        unimplemented!()
    }
}
impl ExtensionOf<Felt> for Sym {
    fn mul_base(self, o: Felt) -> Sym {
        self * Sym::from(o)
    }
}
impl AsBytes for Sym {
    fn as_bytes(&self) -> &[u8] {
        unimplemented!()
    }
}
impl Randomizable for Sym {
    const VALUE_SIZE: usize = 8;
    fn from_random_bytes(_: &[u8]) -> Option<Self> {
        unimplemented!()
    }
}
impl Serializable for Sym {
    fn write_into<W: ByteWriter>(&self, _: &mut W) {
        unimplemented!()
    }
}
impl Deserializable for Sym {
    fn read_from<R: ByteReader>(_: &mut R) -> Result<Self, DeserializationError> {
        unimplemented!()
    }
}
impl FieldElement for Sym {
    type PositiveInteger = u64;
    type BaseField = Felt;
    const EXTENSION_DEGREE: usize = 1;
    const ELEMENT_BYTES: usize = 8;
    const IS_CANONICAL: bool = false;
    const ZERO: Self = Sym::c(0);
    const ONE: Self = Sym::c(1);
    fn inv(self) -> Self {
        if self.is_c() {
            Sym::from(Felt::new(self.val).inv())
        } else {
            Sym::node(Node::Inv(self))
        }
    }
    fn conjugate(&self) -> Self {
        *self
    }
    fn base_element(&self, _: usize) -> Felt {
        unimplemented!()
    }
    fn slice_as_base_elements(_: &[Self]) -> &[Felt] {
        unimplemented!()
    }
    fn slice_from_base_elements(_: &[Felt]) -> &[Self] {
        unimplemented!()
    }
    fn elements_as_bytes(_: &[Self]) -> &[u8] {
        unimplemented!()
    }
    unsafe fn bytes_as_elements(_: &[u8]) -> Result<&[Self], DeserializationError> {
        unimplemented!()
    }
}
