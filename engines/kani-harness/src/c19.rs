//! C19 / C10 / C02: decoders of untrusted bytes for the fixed-layout statement types.
use crate::util::*;
use miden_core::utils::{Deserializable, Serializable, SliceReader};
use miden_core::{StackInputs, StackOutputs};

macro_rules! stack_outputs_bytes {
    ($name:ident, $n:expr, $unwind:expr) => {
        /// arbitrary bytes -> StackOutputs::read_from; an accepted value must be usable by the
        /// verifier's AIR construction without panicking, and must re-encode to the consumed prefix
        #[kani::proof]
        #[kani::unwind($unwind)]
        fn $name() {
            let bytes: [u8; $n] = kani::any();
            let mut r = SliceReader::new(&bytes);
            match StackOutputs::read_from(&mut r) {
                Ok(o) => {
                    kani::cover!(true, "some byte string is accepted");
                    // what verify() -> ProcessorAir::new/get_assertions does with the outputs
                    let top = o.stack_top();
                    if o.has_overflow() {
                        let _p = o.overflow_prev();
                        let ov = o.stack_overflow();
                        core::mem::forget(ov);
                    }
                    core::mem::forget(o);
                }
                Err(e) => {
                    core::mem::forget(e);
                }
            }
        }
    };
}

stack_outputs_bytes!(c19_stack_outputs_bytes_8, 8, 4);
stack_outputs_bytes!(c19_stack_outputs_bytes_16, 16, 5);
