//! Kani proof harnesses over small real units of miden-vm (Engine B, DESIGN 2.2).
//! Every container length is concrete per harness; Felt inputs are built without multiplication.
#![allow(unused)]
#[cfg(kani)]
mod util;
#[cfg(kani)]
mod c15;
#[cfg(kani)]
mod c19;
