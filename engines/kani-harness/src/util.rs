use miden_core::{Felt, StarkField};

pub const M: u64 = 18446744069414584321;

/// arbitrary field element without going through a multiplication (from_mont takes the internal
/// representation directly)
pub fn any_felt() -> Felt {
    let x: u64 = kani::any();
    kani::assume(x < M);
    Felt::from_mont(x)
}

pub fn any_bytes<const N: usize>() -> [u8; N] {
    kani::any()
}
