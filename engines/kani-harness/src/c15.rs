//! C15: option validation and the clock-advance check.
use miden_air::ExecutionOptions;
use miden_processor::cf_verif::System;

#[kani::proof]
fn c15_options_new() {
    let max: Option<u32> = kani::any();
    let exp: u32 = kani::any();
    // stated bound: expected cycles <= 2^31 (next_power_of_two overflows above; DESIGN section 8)
    kani::assume(exp <= 1 << 31);
    let tr: bool = kani::any();
    let m = match max {
        Some(v) => v,
        None => u32::MAX,
    };
    match ExecutionOptions::new(max, exp, tr) {
        Ok(o) => {
            assert!(m >= 64 && m >= exp);
            assert!(o.max_cycles() == m);
            let e = o.expected_cycles();
            assert!(e.is_power_of_two() && e >= 64 && e >= exp);
            assert!(e == 64 || e / 2 < exp);
            assert!(o.enable_tracing() == tr);
            kani::cover!(true, "ok path reachable");
        }
        Err(_) => {
            assert!(m < 64 || m < exp);
            kani::cover!(true, "err path reachable");
        }
    }
}

/// k successive clock advances from a fresh System with a symbolic limit: the i-th advance fails
/// exactly when i > max, and a successful advance increments the clock by one.
#[kani::proof]
#[kani::unwind(10)]
fn c15_advance_clock_first_steps() {
    let mut s = System::new(8);
    let max: u32 = kani::any();
    let mut i: u32 = 0;
    while i < 4 {
        let before = s.clk();
        assert!(before == i);
        let r = s.advance_clock(max);
        if i + 1 > max {
            assert!(r.is_err());
            kani::cover!(true, "limit hit");
            core::mem::forget(r);
            break;
        } else {
            assert!(r.is_ok());
            assert!(s.clk() == i + 1);
            core::mem::forget(r);
        }
        i += 1;
    }
    core::mem::forget(s);
}
