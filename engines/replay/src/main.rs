//! replay: run concrete cases against the natively compiled real code (release profile).
//! usage: replay <jobs.json> <out.json>
//! jobs: {"jobs":[ {"kind":"exec_ops","ops":[{"name":"Add"}|{"name":"Push","imm":"5"}|{"name":"Assert","imm":"0"}],"stack":[u64 top first],"advice":[u64], "max_cycles": n?}
//!               | {"kind":"exec_masm","source":"begin ... end","stack":[..],"advice":[..],"stdlib":bool} ]}
use miden_assembly::Assembler;
use miden_core::code_blocks::CodeBlock;
use miden_core::{Felt, Operation, Program, StackInputs, StarkField};
use miden_processor::{AdviceInputs, DefaultHost, ExecutionOptions, MemAdviceProvider};
use serde_json::{json, Value};
use std::panic;

fn u64s(v: &Value) -> Vec<u64> {
    v.as_array()
        .map(|a| {
            a.iter()
                .map(|x| match x {
                    Value::String(s) => s.parse::<u64>().unwrap(),
                    _ => x.as_u64().unwrap(),
                })
                .collect()
        })
        .unwrap_or_default()
}

fn imm(v: &Value) -> u64 {
    match &v["imm"] {
        Value::String(s) => s.parse::<u64>().unwrap(),
        Value::Null => 0,
        x => x.as_u64().unwrap(),
    }
}

fn op_from(v: &Value) -> Operation {
    use Operation::*;
    let n = v["name"].as_str().unwrap();
    match n {
        "Noop" => Noop, "Assert" => Assert(imm(v) as u32), "FmpAdd" => FmpAdd, "FmpUpdate" => FmpUpdate,
        "SDepth" => SDepth, "Caller" => Caller, "Clk" => Clk, "Add" => Add, "Neg" => Neg, "Mul" => Mul,
        "Inv" => Inv, "Incr" => Incr, "And" => And, "Or" => Or, "Not" => Not, "Eq" => Eq, "Eqz" => Eqz,
        "Expacc" => Expacc, "Ext2Mul" => Ext2Mul, "U32split" => U32split, "U32add" => U32add,
        "U32assert2" => U32assert2(Felt::new(imm(v))), "U32add3" => U32add3, "U32sub" => U32sub,
        "U32mul" => U32mul, "U32madd" => U32madd, "U32div" => U32div, "U32and" => U32and, "U32xor" => U32xor,
        "Pad" => Pad, "Drop" => Drop, "Dup0" => Dup0, "Dup1" => Dup1, "Dup2" => Dup2, "Dup3" => Dup3,
        "Dup4" => Dup4, "Dup5" => Dup5, "Dup6" => Dup6, "Dup7" => Dup7, "Dup9" => Dup9, "Dup11" => Dup11,
        "Dup13" => Dup13, "Dup15" => Dup15, "Swap" => Swap, "SwapW" => SwapW, "SwapW2" => SwapW2,
        "SwapW3" => SwapW3, "SwapDW" => SwapDW, "MovUp2" => MovUp2, "MovUp3" => MovUp3, "MovUp4" => MovUp4,
        "MovUp5" => MovUp5, "MovUp6" => MovUp6, "MovUp7" => MovUp7, "MovUp8" => MovUp8, "MovDn2" => MovDn2,
        "MovDn3" => MovDn3, "MovDn4" => MovDn4, "MovDn5" => MovDn5, "MovDn6" => MovDn6, "MovDn7" => MovDn7,
        "MovDn8" => MovDn8, "CSwap" => CSwap, "CSwapW" => CSwapW, "Push" => Push(Felt::new(imm(v))),
        "AdvPop" => AdvPop, "AdvPopW" => AdvPopW, "MLoadW" => MLoadW, "MStoreW" => MStoreW, "MLoad" => MLoad,
        "MStore" => MStore, "MStream" => MStream, "Pipe" => Pipe, "HPerm" => HPerm, "MpVerify" => MpVerify,
        "MrUpdate" => MrUpdate, "FriE2F4" => FriE2F4, "RCombBase" => RCombBase,
        _ => panic!("unknown op {n}"),
    }
}

/// A host that answers hint-producing advice injectors with scripted values instead of the honest
/// ones (everything else is delegated to the default host).
struct ScriptedHost {
    inner: DefaultHost<MemAdviceProvider>,
    hints: Vec<u64>,
}

impl miden_processor::Host for ScriptedHost {
    fn get_advice<S: miden_processor::ProcessState>(
        &mut self,
        process: &S,
        extractor: miden_processor::AdviceExtractor,
    ) -> Result<miden_processor::HostResponse, miden_processor::ExecutionError> {
        self.inner.get_advice(process, extractor)
    }

    fn set_advice<S: miden_processor::ProcessState>(
        &mut self,
        process: &S,
        injector: miden_core::AdviceInjector,
    ) -> Result<miden_processor::HostResponse, miden_processor::ExecutionError> {
        use miden_core::AdviceInjector::*;
        use miden_processor::{AdviceProvider, AdviceSource};
        match injector {
            U32Clz | U32Ctz | U32Clo | U32Cto | ILog2 if !self.hints.is_empty() => {
                let v = self.hints.remove(0);
                self.inner.advice_provider_mut().push_stack(AdviceSource::Value(Felt::new(v)))?;
                Ok(miden_processor::HostResponse::None)
            }
            other => self.inner.set_advice(process, other),
        }
    }
}

fn run_program(program: &Program, job: &Value) -> Value {
    // stack given top-first; StackInputs::try_from_values expects bottom-first order
    let mut st = u64s(&job["stack"]);
    st.reverse();
    let stack = match StackInputs::try_from_values(st) {
        Ok(s) => s,
        Err(e) => return json!({"status":"input_error","error": format!("{e:?}")}),
    };
    let adv = AdviceInputs::default().with_stack_values(u64s(&job["advice"])).unwrap();
    let host = DefaultHost::new(MemAdviceProvider::from(adv));
    let max = job["max_cycles"].as_u64().map(|v| v as u32);
    let opts = match ExecutionOptions::new(max, 64, false) {
        Ok(o) => o,
        Err(e) => return json!({"status":"options_error","error": format!("{e:?}")}),
    };
    let hints = u64s(&job["hints"]);
    let r = if hints.is_empty() {
        panic::catch_unwind(panic::AssertUnwindSafe(|| miden_processor::execute(program, stack, host, opts)))
    } else {
        let sh = ScriptedHost { inner: host, hints };
        panic::catch_unwind(panic::AssertUnwindSafe(|| miden_processor::execute(program, stack, sh, opts)))
    };
    match r {
        Err(_) => json!({"status":"panic"}),
        Ok(Err(e)) => json!({"status":"error","error": format!("{e:?}")}),
        Ok(Ok(trace)) => {
            let outs = trace.stack_outputs();
            let s: Vec<String> = outs.stack().iter().map(|v| v.to_string()).collect();
            json!({"status":"ok","stack": s, "cycles": trace.trace_len_summary().main_trace_len()})
        }
    }
}

fn op_to_json(op: &Operation) -> Value {
    let dbg = format!("{op:?}");
    let name = dbg.split('(').next().unwrap().to_string();
    match op {
        Operation::Push(v) => json!({"name": "Push", "imm": v.as_int().to_string()}),
        Operation::Assert(c) => json!({"name": "Assert", "imm": c.to_string()}),
        Operation::U32assert2(c) => json!({"name": "U32assert2", "imm": c.as_int().to_string()}),
        _ => json!({"name": name}),
    }
}

fn block_to_json(b: &CodeBlock) -> Value {
    match b {
        CodeBlock::Span(s) => {
            let ops: Vec<Value> = s.op_batches().iter().flat_map(|b| b.ops().iter().map(op_to_json)).collect();
            let decs: Vec<Value> = s.decorators().iter().map(|(i, d)| json!({"at": i, "decorator": format!("{d}")})).collect();
            json!({"kind": "span", "ops": ops, "decorators": decs})
        }
        CodeBlock::Join(j) => json!({"kind": "join", "first": block_to_json(j.first()), "second": block_to_json(j.second())}),
        CodeBlock::Split(s) => json!({"kind": "split", "on_true": block_to_json(s.on_true()), "on_false": block_to_json(s.on_false())}),
        CodeBlock::Loop(l) => json!({"kind": "loop", "body": block_to_json(l.body())}),
        CodeBlock::Call(c) => json!({"kind": if c.is_syscall() {"syscall"} else {"call"}, "fn_hash": format!("{:?}", c.fn_hash())}),
        CodeBlock::Dyn(_) => json!({"kind": "dyn"}),
        CodeBlock::Proxy(_) => json!({"kind": "proxy"}),
    }
}

fn trace_check(program: &Program, job: &Value) -> Value {
    use miden_air::{ProcessorAir, ProvingOptions, PublicInputs};
    use miden_processor::math::FieldElement;
    use winter_air::{Air, EvaluationFrame};
    use winter_prover::Trace;
    let mut st = u64s(&job["stack"]);
    st.reverse();
    let stack = StackInputs::try_from_values(st).unwrap();
    let adv = AdviceInputs::default().with_stack_values(u64s(&job["advice"])).unwrap();
    let host = DefaultHost::new(MemAdviceProvider::from(adv));
    let trace = match miden_processor::execute(program, stack.clone(), host, ExecutionOptions::default()) {
        Ok(t) => t,
        Err(e) => return json!({"status":"error","error": format!("{e:?}")}),
    };
    let pi = PublicInputs::new(program.clone().into(), stack, trace.stack_outputs().clone());
    let air = ProcessorAir::new(trace.get_info(), pi, ProvingOptions::default().into());
    let main = trace.main_segment();
    let n = main.num_rows();
    let w = main.num_cols();
    let periodic = air.get_periodic_column_values();
    let nmain = air.context().num_main_transition_constraints();
    let last = n - air.context().num_transition_exemptions();
    let mut bad: Vec<Value> = Vec::new();
    let mut rows = 0usize;
    for i in 0..last {
        let cur: Vec<Felt> = (0..w).map(|c| main.get(c, i)).collect();
        let nxt: Vec<Felt> = (0..w).map(|c| main.get(c, (i + 1) % n)).collect();
        let per: Vec<Felt> = periodic.iter().map(|c| c[i % c.len()]).collect();
        let frame = EvaluationFrame::from_rows(cur, nxt);
        let mut res = vec![Felt::ZERO; nmain];
        air.evaluate_transition(&frame, &per, &mut res);
        rows += 1;
        for (j, r) in res.iter().enumerate() {
            if *r != Felt::ZERO && bad.len() < 10 {
                bad.push(json!({"row": i, "constraint": j}));
            }
        }
    }
    // boundary assertions of the main segment
    let mut bad_assert = 0usize;
    for a in air.get_assertions() {
        let v = main.get(a.column(), a.first_step());
        if v != a.values()[0] {
            bad_assert += 1;
        }
    }
    // auxiliary segment for fixed pseudo-random challenges: boundary assertions of the aux columns
    let mut bad_aux = 0usize;
    let mut aux_checked = 0usize;
    let mut bus_final: Option<String> = None;
    let mut aux_first: Vec<String> = Vec::new();
    let mut aux_final: Vec<String> = Vec::new();
    if job["aux"].as_bool().unwrap_or(false) {
        let mut trace = trace;
        let nrand = miden_air::trace::AUX_TRACE_RAND_ELEMENTS;
        let rand: Vec<Felt> = (0..nrand).map(|i| Felt::new(0x9e3779b97f4a7c15u64.wrapping_mul(i as u64 + 1) % 0xffffffff00000001)).collect();
        if let Some(aux) = trace.build_aux_segment::<Felt>(&[], &rand) {
            let mut are = winter_air::AuxTraceRandElements::<Felt>::new();
            are.add_segment_elements(rand);
            for a in air.get_aux_assertions(&are) {
                aux_checked += 1;
                if aux.get(a.column(), a.first_step()) != a.values()[0] {
                    bad_aux += 1;
                }
            }
            // chiplets bus (requests of the stack / decoder vs. responses of the chiplets): a running
            // product that must be back at 1 on the last row before the random rows
            let last = n - miden_processor::ExecutionTrace::NUM_RAND_ROWS - 1;
            bus_final = Some(aux.get(miden_air::trace::CHIPLETS_AUX_TRACE_OFFSET, last).to_string());
            aux_first = (0..aux.num_cols()).map(|c| aux.get(c, 0).to_string()).collect();
            aux_final = (0..aux.num_cols()).map(|c| aux.get(c, last).to_string()).collect();
        }
    }
    json!({"status":"ok","rows": rows, "trace_len": n, "nonzero": bad, "bad_assertions": bad_assert, "constraints": nmain,
           "bad_aux_assertions": bad_aux, "aux_assertions": aux_checked, "bus_final": bus_final, "aux_first": aux_first, "aux_final": aux_final})
}

/// Executes a program whose root is one span made of the given operations and checks the decoder
/// columns of the real trace: (a) the operations on in-span rows, with NOOPs removed, are the given
/// operations with NOOPs removed; (b) within a group h0 (operations left in the group) loses the low
/// 7 bits = the opcode of the row; (c) h0 is 0 on the last row of every group; (d) the group counter
/// is 0 on the END row; (e) op_idx restarts at 0 with each group and counts up by one.
fn span_decode(job: &Value) -> Value {
    use miden_air::trace::decoder::{GROUP_COUNT_COL_IDX, HASHER_STATE_OFFSET, IN_SPAN_COL_IDX, NUM_OP_BITS, OP_BITS_OFFSET, OP_INDEX_COL_IDX};
    use miden_air::trace::DECODER_TRACE_OFFSET;
    use winter_prover::Trace;
    let ops: Vec<Operation> = job["ops"].as_array().unwrap().iter().map(op_from).collect();
    let program = Program::new(CodeBlock::new_span(ops.clone()));
    let r = panic::catch_unwind(panic::AssertUnwindSafe(|| {
        miden_processor::execute(&program, StackInputs::default(), DefaultHost::default(), ExecutionOptions::default())
    }));
    let trace = match r {
        Err(_) => return json!({"status":"panic"}),
        Ok(Err(e)) => return json!({"status":"error","error": format!("{e:?}")}),
        Ok(Ok(t)) => t,
    };
    let main = trace.main_segment();
    let n = main.num_rows();
    let col = |c: usize, i: usize| main.get(DECODER_TRACE_OFFSET + c, i).as_int();
    let opcode = |i: usize| (0..NUM_OP_BITS).map(|b| col(OP_BITS_OFFSET + b, i) << b).sum::<u64>();
    let span_code = Operation::Span.op_code() as u64;
    let respan_code = Operation::Respan.op_code() as u64;
    let end_code = Operation::End.op_code() as u64;
    let mut problems: Vec<String> = Vec::new();
    let mut stream: Vec<u64> = Vec::new();
    let mut i = 0usize;
    while i < n && opcode(i) != span_code { i += 1; }
    if i == n { return json!({"status":"ok","consistent": false, "problems": ["no SPAN row"]}); }
    // row i is SPAN / RESPAN: h0 of it holds the first group of the batch; following rows are in-span
    let mut prev_h0 = col(HASHER_STATE_OFFSET, i);
    let mut prev_cnt = col(GROUP_COUNT_COL_IDX, i);
    let mut expect_idx = 0u64;
    let mut first_of_batch = true;
    i += 1;
    let mut ended = false;
    while i < n {
        let oc = opcode(i);
        if col(IN_SPAN_COL_IDX, i) != 1 {
            if oc == respan_code {
                if prev_h0 != 0 { problems.push(format!("row {i}: RESPAN while the group value is {prev_h0}")); }
                prev_h0 = col(HASHER_STATE_OFFSET, i);
                prev_cnt = col(GROUP_COUNT_COL_IDX, i);
                expect_idx = 0;
                first_of_batch = true;
                i += 1;
                continue;
            }
            if oc == end_code {
                if prev_h0 != 0 { problems.push(format!("row {i}: END while the group value is {prev_h0}")); }
                if col(GROUP_COUNT_COL_IDX, i) != 0 { problems.push(format!("row {i}: group counter {} at END", col(GROUP_COUNT_COL_IDX, i))); }
                ended = true;
            } else {
                problems.push(format!("row {i}: opcode {oc} outside the span"));
            }
            break;
        }
        let h0 = col(HASHER_STATE_OFFSET, i);
        let cnt = col(GROUP_COUNT_COL_IDX, i);
        let idx = col(OP_INDEX_COL_IDX, i);
        // a new group starts on this row when op_idx is 0 (and it is not the first row of the batch):
        // the group value before this row is then unknown to this oracle (it is the batch's next
        // group), so only rows inside a group are checked against the previous h0
        let new_group = idx == 0 && !first_of_batch;
        if new_group {
            if prev_h0 != 0 { problems.push(format!("row {i}: new group starts while the previous group value is {prev_h0}")); }
            if h0 >= (1u64 << 63) { problems.push(format!("row {i}: group value {h0}")); }
            expect_idx = 0;
        } else {
            if prev_h0 < oc || (prev_h0 - oc) % 128 != 0 || (prev_h0 - oc) >> 7 != h0 {
                problems.push(format!("row {i}: group value {prev_h0} -> {h0} does not remove opcode {oc}"));
            }
        }
        if idx != expect_idx || idx > 8 { problems.push(format!("row {i}: op_idx {idx}, expected {expect_idx}")); }
        if cnt > prev_cnt { problems.push(format!("row {i}: group counter grows {prev_cnt} -> {cnt}")); }
        stream.push(oc);
        expect_idx += 1;
        prev_h0 = h0;
        prev_cnt = cnt;
        first_of_batch = false;
        i += 1;
    }
    if !ended { problems.push("no END row after the span".to_string()); }
    let noop = Operation::Noop.op_code() as u64;
    let got: Vec<u64> = stream.iter().copied().filter(|&c| c != noop).collect();
    let want: Vec<u64> = ops.iter().map(|o| o.op_code() as u64).filter(|&c| c != noop).collect();
    if got != want { problems.push(format!("operation stream {got:?} differs from the program {want:?}")); }
    // (f) the operation the debug iterator reports for cycle clk is the operation in trace row clk - 1
    let it = panic::catch_unwind(panic::AssertUnwindSafe(|| {
        let mut bad: Vec<String> = Vec::new();
        for state in miden_processor::execute_iter(&program, StackInputs::default(), DefaultHost::default()) {
            match state {
                Err(e) => { bad.push(format!("debug iterator: {e:?}")); break; }
                Ok(st) => {
                    if let Some(op) = st.op {
                        let row = st.clk as usize - 1;
                        if row < n && opcode(row) != op.op_code() as u64 && bad.len() < 4 {
                            bad.push(format!("cycle {}: debug iterator reports {} but the trace row holds opcode {}", st.clk, op, opcode(row)));
                        }
                    }
                }
            }
        }
        bad
    }));
    match it {
        Ok(bad) => problems.extend(bad),
        Err(_) => problems.push("debug iterator panicked".to_string()),
    }
    let n_noops = stream.iter().filter(|&&c| c == noop).count();
    json!({"status":"ok","consistent": problems.is_empty(), "problems": problems, "rows_in_span": stream.len(), "noops": n_noops})
}

fn main() {
    if std::env::var("REPLAY_VERBOSE_PANIC").is_err() {
        panic::set_hook(Box::new(|_| {}));
    }
    let args: Vec<String> = std::env::args().collect();
    let jobs: Value = serde_json::from_str(&std::fs::read_to_string(&args[1]).unwrap()).unwrap();
    let mut out = Vec::new();
    for job in jobs["jobs"].as_array().unwrap() {
        match job["kind"].as_str().unwrap() {
            "exec_ops" => {
                let ops: Vec<Operation> = job["ops"].as_array().unwrap().iter().map(op_from).collect();
                let program = Program::new(CodeBlock::new_span(ops));
                out.push(run_program(&program, job));
            }
            "exec_masm" => {
                let mut asm = Assembler::default();
                if job["stdlib"].as_bool().unwrap_or(false) {
                    asm = asm.with_library(&miden_stdlib::StdLibrary::default()).unwrap();
                }
                match asm.compile(job["source"].as_str().unwrap()) {
                    Err(e) => out.push(json!({"status":"assembly_error","error": format!("{e:?}")})),
                    Ok(p) => out.push(run_program(&p, job)),
                }
            }
            "assemble" => {
                // the real assembler: source -> MAST (spans of operations, control blocks)
                let mut asm = Assembler::default();
                if job["stdlib"].as_bool().unwrap_or(false) {
                    asm = asm.with_library(&miden_stdlib::StdLibrary::default()).unwrap();
                }
                if job["debug"].as_bool().unwrap_or(false) {
                    asm = asm.with_debug_mode(true);
                }
                let r = panic::catch_unwind(panic::AssertUnwindSafe(|| asm.compile(job["source"].as_str().unwrap())));
                match r {
                    Err(_) => out.push(json!({"status":"panic"})),
                    Ok(Err(e)) => out.push(json!({"status":"assembly_error","error": format!("{e:?}")})),
                    Ok(Ok(p)) => out.push(json!({"status":"ok","root": block_to_json(p.root()), "hash": format!("{:?}", p.hash())})),
                }
            }
            "decode" => {
                // untrusted bytes -> real deserialiser -> (what the verifier does with the value) under catch_unwind
                use miden_core::utils::{Deserializable, Serializable, SliceReader};
                let bytes: Vec<u8> = job["bytes"].as_array().unwrap().iter().map(|b| b.as_u64().unwrap() as u8).collect();
                let ty = job["type"].as_str().unwrap().to_string();
                let r = panic::catch_unwind(panic::AssertUnwindSafe(|| -> Value {
                    let mut rd = SliceReader::new(&bytes);
                    match ty.as_str() {
                        "StackInputs" => match miden_core::StackInputs::read_from(&mut rd) {
                            Ok(v) => json!({"status":"ok","reencoded": v.to_bytes(), "len": v.values().len()}),
                            Err(e) => json!({"status":"error","error": format!("{e:?}")}),
                        },
                        "StackOutputs" => match miden_core::StackOutputs::read_from(&mut rd) {
                            Ok(v) => {
                                let re = v.to_bytes();
                                // what verify() -> ProcessorAir::new / get_assertions does with the outputs
                                let top = v.stack_top();
                                let mut n = top.len();
                                if v.has_overflow() {
                                    let _ = v.overflow_prev();
                                    n += v.stack_overflow().len();
                                }
                                for i in 0..v.stack().len() { let _ = v.get_stack_item(i); }
                                // the documented validity rule of StackOutputs::new, evaluated independently
                                let m = <Felt as StarkField>::MODULUS;
                                let ns = v.stack().len();
                                let na = v.overflow_addrs().len();
                                let valid = ns >= 16 && ns <= u16::MAX as usize
                                    && v.stack().iter().all(|&x| x < m)
                                    && v.overflow_addrs().iter().all(|&x| x < m)
                                    && na == if ns > 16 { ns + 1 - 16 } else { 0 };
                                json!({"status":"ok","reencoded": re, "used": n, "valid": valid, "stack_len": ns, "addrs_len": na})
                            }
                            Err(e) => json!({"status":"error","error": format!("{e:?}")}),
                        },
                        "Kernel" => match miden_core::Kernel::read_from(&mut rd) {
                            Ok(v) => json!({"status":"ok","reencoded": v.to_bytes(), "len": v.proc_hashes().len()}),
                            Err(e) => json!({"status":"error","error": format!("{e:?}")}),
                        },
                        "ProgramInfo" => match miden_core::ProgramInfo::read_from(&mut rd) {
                            Ok(v) => json!({"status":"ok","reencoded": v.to_bytes()}),
                            Err(e) => json!({"status":"error","error": format!("{e:?}")}),
                        },
                        "ExecutionProof" => match miden_air::ExecutionProof::from_bytes(&bytes) {
                            Ok(v) => json!({"status":"ok","reencoded": v.to_bytes()}),
                            Err(e) => json!({"status":"error","error": format!("{e:?}")}),
                        },
                        t => panic!("unknown type {t}"),
                    }
                }));
                match r {
                    Ok(v) => out.push(v),
                    Err(_) => out.push(json!({"status":"panic"})),
                }
            }
            "roundtrip" => {
                // value built through the public constructors -> to_bytes -> read_from_bytes -> equality
                use miden_core::utils::{Deserializable, Serializable};
                let ty = job["type"].as_str().unwrap().to_string();
                let nums = |k: &str| -> Vec<u64> {
                    job[k].as_array().map(|a| a.iter().map(|x| x.as_str().map(|s| s.parse::<u64>().unwrap()).unwrap_or_else(|| x.as_u64().unwrap())).collect()).unwrap_or_default()
                };
                let digests = |k: &str| -> Vec<miden_core::crypto::hash::RpoDigest> {
                    nums(k).chunks(4).map(|c| miden_core::crypto::hash::RpoDigest::new([Felt::new(c[0]), Felt::new(c[1]), Felt::new(c[2]), Felt::new(c[3])])).collect()
                };
                let r = panic::catch_unwind(panic::AssertUnwindSafe(|| -> Value {
                    match ty.as_str() {
                        "StackInputs" => {
                            let mut vals: Vec<Felt> = nums("values").into_iter().map(Felt::new).collect();
                            vals.reverse(); // `values` lists the internal (already reversed) order
                            let v = miden_core::StackInputs::new(vals);
                            match miden_core::StackInputs::read_from_bytes(&v.to_bytes()) {
                                Ok(w) => json!({"status":"ok","equal": v.values() == w.values()}),
                                Err(e) => json!({"status":"ok","equal": false, "error": format!("{e:?}")}),
                            }
                        }
                        "StackOutputs" => match miden_core::StackOutputs::new(nums("stack"), nums("overflow_addrs")) {
                            Err(e) => json!({"status":"not_constructible","error": format!("{e:?}")}),
                            Ok(v) => match miden_core::StackOutputs::read_from_bytes(&v.to_bytes()) {
                                Ok(w) => json!({"status":"ok","equal": v == w}),
                                Err(e) => json!({"status":"ok","equal": false, "error": format!("{e:?}")}),
                            },
                        },
                        "Kernel" => match miden_core::Kernel::new(&digests("hashes")) {
                            Err(e) => json!({"status":"not_constructible","error": format!("{e:?}")}),
                            Ok(v) => match miden_core::Kernel::read_from_bytes(&v.to_bytes()) {
                                Ok(w) => json!({"status":"ok","equal": v == w}),
                                Err(e) => json!({"status":"ok","equal": false, "error": format!("{e:?}")}),
                            },
                        },
                        "ProgramInfo" => match miden_core::Kernel::new(&digests("hashes")) {
                            Err(e) => json!({"status":"not_constructible","error": format!("{e:?}")}),
                            Ok(k) => {
                                let v = miden_core::ProgramInfo::new(digests("program_hash")[0], k);
                                match miden_core::ProgramInfo::read_from_bytes(&v.to_bytes()) {
                                    Ok(w) => json!({"status":"ok","equal": v == w}),
                                    Err(e) => json!({"status":"ok","equal": false, "error": format!("{e:?}")}),
                                }
                            }
                        },
                        t => panic!("unknown type {t}"),
                    }
                }));
                match r {
                    Ok(v) => out.push(v),
                    Err(_) => out.push(json!({"status":"panic"})),
                }
            }
            "syscall_refusal" => {
                // hand-built MASTs with a SYSCALL node whose target is not a kernel procedure: (a) the hash of
                // an ordinary procedure of the program, (b) the reserved hash of the dyn block with the hash of
                // an ordinary procedure on top of the stack.  Both must end in SyscallTargetNotInKernel.
                use miden_core::code_blocks::Dyn;
                use miden_core::CodeBlockTable;
                let r = panic::catch_unwind(panic::AssertUnwindSafe(|| -> Value {
                    let mut outcomes: Vec<Value> = vec![];
                    for variant in ["non_kernel_hash", "dyn_hash"] {
                        let kernel_proc = CodeBlock::new_span(vec![Operation::Noop]);
                        let kernel = miden_core::Kernel::new(&[kernel_proc.hash()]).unwrap();
                        let user_proc = CodeBlock::new_span(vec![Operation::Push(Felt::new(99)), Operation::Pad, Operation::MStore, Operation::Drop]);
                        let h = user_proc.hash();
                        let target = if variant == "dyn_hash" { Dyn::dyn_hash() } else { h };
                        let push_hash = CodeBlock::new_span(vec![Operation::Push(h[0]), Operation::Push(h[1]), Operation::Push(h[2]), Operation::Push(h[3])]);
                        let cleanup = CodeBlock::new_span(vec![Operation::Drop, Operation::Drop, Operation::Drop, Operation::Drop]);
                        let root = CodeBlock::new_join([CodeBlock::new_join([push_hash, CodeBlock::new_syscall(target)]), cleanup]);
                        let mut cb = CodeBlockTable::default();
                        cb.insert(kernel_proc);
                        cb.insert(user_proc);
                        let program = Program::with_kernel(root, kernel, cb);
                        let res = miden_processor::execute(&program, StackInputs::default(), DefaultHost::default(), ExecutionOptions::default());
                        outcomes.push(match res {
                            Ok(_) => json!({"variant": variant, "outcome": "completed"}),
                            Err(e) => json!({"variant": variant, "outcome": "error", "error": format!("{e:?}").chars().take(60).collect::<String>()}),
                        });
                    }
                    json!({"status":"ok","outcomes": outcomes})
                }));
                match r {
                    Ok(v) => out.push(v),
                    Err(_) => out.push(json!({"status":"panic"})),
                }
            }
            "step_iter" => {
                // forward walk of a real execution through VmStateIterator, then for every t the history
                // "next up to t, k times back, 3 times next": every re-reported state must equal the forward
                // state carrying the same clk (ctx, fmp, stack, memory)
                let src = job["source"].as_str().unwrap().to_string();
                let r = panic::catch_unwind(panic::AssertUnwindSafe(|| -> Value {
                    let program = match Assembler::default().compile(&src) {
                        Ok(p) => p,
                        Err(e) => return json!({"status":"assembly_error","error": format!("{e:?}")}),
                    };
                    let snap = |s: &miden_processor::VmState| -> String { format!("{:?}|{:?}|{:?}|{:?}", s.ctx, s.fmp, s.stack, s.memory) };
                    let fresh = || miden_processor::execute_iter(&program, StackInputs::default(), DefaultHost::default());
                    let mut fwd: Vec<String> = vec![];
                    for st in fresh() {
                        match st {
                            Ok(s) => { assert_eq!(s.clk as usize, fwd.len()); fwd.push(snap(&s)); }
                            Err(e) => return json!({"status":"exec_error","error": format!("{e:?}")}),
                        }
                    }
                    let mut mismatches: Vec<String> = vec![];
                    let mut panics: Vec<String> = vec![];
                    for t in 0..fwd.len() {
                        for k in 1..=2usize {
                            let mut it = fresh();
                            let mut hist = String::new();
                            let mut check = |s: &miden_processor::VmState, hist: &str| {
                                if (s.clk as usize) < fwd.len() && snap(s) != fwd[s.clk as usize] && mismatches.len() < 6 {
                                    mismatches.push(format!("history [{hist}] reports clk={} as {} but the forward walk has {}", s.clk, snap(s), fwd[s.clk as usize]));
                                }
                            };
                            let walked = panic::catch_unwind(panic::AssertUnwindSafe(|| {
                                for _ in 0..=t { if let Some(Ok(s)) = it.next() { hist.push_str(&format!("n{} ", s.clk)); check(&s, &hist); } }
                                for _ in 0..k { hist.push_str("b"); if let Some(s) = it.back() { hist.push_str(&format!("{} ", s.clk)); check(&s, &hist); } }
                                for _ in 0..3 { hist.push_str("n"); if let Some(Ok(s)) = it.next() { hist.push_str(&format!("{} ", s.clk)); check(&s, &hist); } }
                            }));
                            if walked.is_err() { panics.push(format!("history [{hist}] panics")); }
                        }
                    }
                    json!({"status":"ok","rows": fwd.len(), "mismatches": mismatches, "panics": panics.iter().take(6).collect::<Vec<_>>(), "n_panics": panics.len()})
                }));
                match r {
                    Ok(v) => out.push(v),
                    Err(_) => out.push(json!({"status":"panic"})),
                }
            }
            "mem_seq" => {
                // a sequence of accesses applied to the memory of a real Process (Chiplets API used by
                // the memory operations): every word returned, and the final number of trace rows
                let ops = job["ops"].as_array().unwrap().clone();
                let r = panic::catch_unwind(panic::AssertUnwindSafe(|| -> Value {
                    let mut p = miden_processor::Process::new(
                        miden_core::Kernel::default(),
                        StackInputs::default(),
                        DefaultHost::default(),
                        ExecutionOptions::default(),
                    );
                    let w2s = |w: [Felt; 4]| -> Vec<String> { w.iter().map(|e| e.as_int().to_string()).collect() };
                    let num = |v: &Value| -> u64 { v.as_str().map(|s| s.parse::<u64>().unwrap()).unwrap_or_else(|| v.as_u64().unwrap()) };
                    let word = |v: &Value| -> [Felt; 4] { let a = v.as_array().unwrap(); [Felt::new(num(&a[0])), Felt::new(num(&a[1])), Felt::new(num(&a[2])), Felt::new(num(&a[3]))] };
                    let mut res: Vec<Value> = vec![];
                    let base_rows = p.chiplets.trace_len();
                    for o in ops.iter() {
                        let ctx = miden_processor::ContextId::from(num(&o["ctx"]) as u32);
                        let addr = num(&o["addr"]) as u32;
                        match o["op"].as_str().unwrap() {
                            "read" => res.push(json!(w2s(p.chiplets.read_mem(ctx, addr)))),
                            "read2" => { let d = p.chiplets.read_mem_double(ctx, addr); res.push(json!([w2s(d[0]), w2s(d[1])])) }
                            "write" => { p.chiplets.write_mem(ctx, addr, word(&o["word"])); res.push(Value::Null) }
                            "write2" => { p.chiplets.write_mem_double(ctx, addr, [word(&o["word"]), word(&o["word2"])]); res.push(Value::Null) }
                            "write_elem" => res.push(json!(w2s(p.chiplets.write_mem_element(ctx, addr, Felt::new(num(&o["value"])))))),
                            "probe" => res.push(json!(w2s(p.chiplets.get_mem_value(ctx, addr).unwrap_or([Felt::new(0); 4])))),
                            x => panic!("unknown memory op {x}"),
                        }
                    }
                    json!({"status":"ok","results": res, "rows": p.chiplets.trace_len() - base_rows })
                }));
                match r {
                    Ok(v) => out.push(v),
                    Err(_) => out.push(json!({"status":"panic"})),
                }
            }
            "from_ints" => {
                // statement / advice values built from raw integers through the public constructors:
                // accepted or rejected, and the resulting elements (canonical integer form)
                let ty = job["type"].as_str().unwrap().to_string();
                let nums = |k: &str| -> Vec<u64> {
                    job[k].as_array().map(|a| a.iter().map(|x| x.as_str().map(|s| s.parse::<u64>().unwrap()).unwrap_or_else(|| x.as_u64().unwrap())).collect()).unwrap_or_default()
                };
                let strs = |v: &[Felt]| -> Vec<String> { v.iter().map(|e| e.as_int().to_string()).collect() };
                let r = panic::catch_unwind(panic::AssertUnwindSafe(|| -> Value {
                    match ty.as_str() {
                        "StackInputs" => match miden_core::StackInputs::try_from_values(nums("values")) {
                            Ok(v) => json!({"status":"ok","values": strs(v.values())}),
                            Err(e) => json!({"status":"err","error": format!("{e:?}")}),
                        },
                        "AdviceInputs" => match miden_processor::AdviceInputs::default().with_stack_values(nums("values")) {
                            Ok(v) => json!({"status":"ok","values": strs(v.stack())}),
                            Err(e) => json!({"status":"err","error": format!("{e:?}")}),
                        },
                        "StackOutputs" => match miden_core::StackOutputs::new(nums("stack"), nums("overflow_addrs")) {
                            Ok(v) => json!({"status":"ok","values": strs(&v.stack().iter().map(|x| Felt::new(*x)).collect::<Vec<_>>()),
                                            "raw_stack": v.stack().iter().map(|x| x.to_string()).collect::<Vec<_>>(),
                                            "raw_addrs": v.overflow_addrs().iter().map(|x| x.to_string()).collect::<Vec<_>>()}),
                            Err(e) => json!({"status":"err","error": format!("{e:?}")}),
                        },
                        t => panic!("unknown type {t}"),
                    }
                }));
                match r {
                    Ok(v) => out.push(v),
                    Err(_) => out.push(json!({"status":"panic"})),
                }
            }
            "batch_ops" => {
                // the real Span::new (batch_ops): number of batches, groups and op counts
                let ops: Vec<Operation> = job["ops"].as_array().unwrap().iter().map(op_from).collect();
                let span = miden_core::code_blocks::Span::new(ops);
                let batches: Vec<Value> = span
                    .op_batches()
                    .iter()
                    .map(|b| {
                        json!({"num_groups": b.num_groups(),
                               "groups": b.groups().iter().map(|g| g.as_int().to_string()).collect::<Vec<_>>(),
                               "op_counts": b.op_counts().to_vec(),
                               "num_ops": b.ops().len()})
                    })
                    .collect();
                out.push(json!({"status":"ok","num_batches": batches.len(), "batches": batches}));
            }
            "span_decode" => out.push(span_decode(job)),
            "trace_check" => {
                // execute a program and evaluate every main transition constraint of the real AIR
                // on every non-exempt row pair of the real trace
                let mut asm = Assembler::default();
                if let Some(k) = job["kernel"].as_str() {
                    asm = match asm.with_kernel(k) {
                        Ok(a) => a,
                        Err(e) => { out.push(json!({"status":"assembly_error","error": format!("kernel: {e:?}")})); continue; }
                    };
                }
                if job["stdlib"].as_bool().unwrap_or(false) {
                    asm = asm.with_library(&miden_stdlib::StdLibrary::default()).unwrap();
                }
                let program = match asm.compile(job["source"].as_str().unwrap()) {
                    Err(e) => { out.push(json!({"status":"assembly_error","error": format!("{e:?}")})); continue; }
                    Ok(p) => p,
                };
                out.push(trace_check(&program, job));
            }
            k => panic!("unknown job kind {k}"),
        }
    }
    std::fs::write(&args[2], serde_json::to_string(&json!({"results": out})).unwrap()).unwrap();
}
