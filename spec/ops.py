"""Spec table: stack transition of every VM operation, transcribed from
docs/src/design/stack/{op_constraints,system_ops,field_ops,stack_ops,u32_ops,io_ops,crypto_ops}.md
and docs/src/design/decoder/main.md (stack effect of control-flow operations).

The only hand-written oracle of C04 (and, with the failure conditions, of C05).  Entry format:
    name -> function(S) returning a dict
        outputs  : values of the top positions of the next row (Lin / FREE / ("ite", cond, a, b) /
                   ("bool", fn(next_cell_lin) -> z3 Bool))
        consumed : how many items of the current top the outputs replace (so shift = len(outputs) - consumed)
        pre      : assumptions on the current row under which the doc defines the operation
                   (e.g. "values known to be smaller than 2^32")
        implied  : conditions on the CURRENT row that a valid transition must imply (the AIR must
                   reject otherwise): binary operands, ASSERT's 1, U32ASSERT2's operands
        extra    : further enforced cells, list of (label, z3 Bool)
        rc16     : True when helper registers h0..h3 are range-checked 16-bit limbs (LogUp bus)
        depth    : "call" for CALL/SYSCALL (b0' = 16), "free" when this AIR version leaves the depth
                   to a virtual table (END of a call block), default by shift
FREE marks a next cell the design does not bind by a main-trace constraint (values coming over a
bus / from the decoder / from advice)."""
import z3

FREE = None
TWO16 = 2**16
TWO32 = 2**32


class S:
    """view of the row pair for spec functions (filled by the check)"""

    def __init__(self, ctx, s, n, cells):
        self.ctx = ctx
        self.s = s  # current stack s[0..15] as Lin
        self.n = n  # next stack
        self.__dict__.update(cells)  # b0,b1,h0,clk,fmp,b0n,b1n,clkn,fmpn,hp (list of 6 helper Lins)

    def v(self, l):
        return self.ctx.value(l)

    def is_bin(self, l):
        x = self.v(l)
        return z3.Or(x == 0, x == 1)

    def lt(self, l, bound):
        return self.v(l) < bound


def _ite(c, a, b):
    return ("ite", c, a, b)


def _nop(S):
    return dict(outputs=[], consumed=0)


def _movup(k):
    def f(S):
        return dict(outputs=[S.s[k]] + S.s[0:k], consumed=k + 1)
    return f


def _movdn(k):
    def f(S):
        return dict(outputs=S.s[1:k + 1] + [S.s[0]], consumed=k + 1)
    return f


def _dup(k):
    def f(S):
        return dict(outputs=[S.s[k]], consumed=0)
    return f


def _free(nout, consumed, **kw):
    def f(S):
        d = dict(outputs=[FREE] * nout, consumed=consumed)
        d.update(kw)
        return d
    return f


def _swapw(k):
    def f(S):
        o = list(S.s[0:4 * (k + 1)])
        o[0:4], o[4 * k:4 * k + 4] = S.s[4 * k:4 * k + 4], S.s[0:4]
        return dict(outputs=o, consumed=4 * (k + 1))
    return f


def _swapdw(S):
    return dict(outputs=S.s[8:16] + S.s[0:8], consumed=16)


def _eqz(S):
    a = S.v(S.s[0])
    return dict(outputs=[("bool", lambda n: S.v(n) == z3.If(a == 0, 1, 0))], consumed=1)


def _eq(S):
    a, b = S.v(S.s[0]), S.v(S.s[1])
    return dict(outputs=[("bool", lambda n: S.v(n) == z3.If(a == b, 1, 0))], consumed=2)


def _inv(S):
    # defined only for a != 0; result is THE inverse
    inv = S.ctx.inv(S.s[0])
    return dict(outputs=[inv], consumed=1, implied=[("operand non-zero", S.v(S.s[0]) != 0)])


def _not(S):
    return dict(outputs=[1 - S.s[0]], consumed=1, implied=[("operand binary", S.is_bin(S.s[0]))])


def _and(S):
    a, b = S.v(S.s[0]), S.v(S.s[1])
    return dict(outputs=[("bool", lambda n: S.v(n) == z3.If(z3.And(a == 1, b == 1), 1, 0))], consumed=2,
                implied=[("a binary", S.is_bin(S.s[0])), ("b binary", S.is_bin(S.s[1]))])


def _or(S):
    a, b = S.v(S.s[0]), S.v(S.s[1])
    return dict(outputs=[("bool", lambda n: S.v(n) == z3.If(z3.Or(a == 1, b == 1), 1, 0))], consumed=2,
                implied=[("a binary", S.is_bin(S.s[0])), ("b binary", S.is_bin(S.s[1]))])


def _expacc(S):
    # stack: [bit_prev, exp, acc, b] -> [bit, exp^2, acc * (bit ? exp : 1), b >> 1] with b = 2*b' + bit
    # doc (field_ops.md EXPACC): bit' binary, exp' = exp^2, acc' = acc * ((exp-1)*bit' + 1), b = 2 b' + bit'
    c = S.ctx
    exp, acc, b = S.s[1], S.s[2], S.s[3]
    bit = S.n[0]
    bitv = S.v(bit)
    accv_exp = c.mul(acc, exp)
    return dict(outputs=[FREE, c.mul(exp, exp),
                         ("bool", lambda n: S.v(n) == z3.If(bitv == 1, S.v(accv_exp), S.v(acc))),
                         ("bool", lambda n: c.eq(b, n.scale(2) + bit))],
                consumed=4,
                pre=[("next bit binary (enforced on the following row by the top-binary general constraint of the next EXPACC / by u32 decomposition in exp)", S.is_bin(bit))])


def _ext2mul(S):
    # [a1, a0, b1, b0] -> [a1, a0, d1, d0]; (d0 + d1 x) = (a0 + a1 x)(b0 + b1 x) mod x^2 - x + 2
    c = S.ctx
    a1, a0, b1, b0 = S.s[0], S.s[1], S.s[2], S.s[3]
    d0 = c.mul(a0, b0) - c.mul(a1, b1).scale(2)
    d1 = c.mul(a0, b1) + c.mul(a1, b0) + c.mul(a1, b1)
    return dict(outputs=[a1, a0, d1, d0], consumed=4)


def _cswap(S):
    cnd = S.v(S.s[0])
    a, b = S.s[1], S.s[2]
    return dict(outputs=[_ite(cnd == 1, b, a), _ite(cnd == 1, a, b)], consumed=3,
                implied=[("condition binary", S.is_bin(S.s[0]))])


def _cswapw(S):
    cnd = S.v(S.s[0])
    A, B = S.s[1:5], S.s[5:9]
    return dict(outputs=[_ite(cnd == 1, B[i], A[i]) for i in range(4)] + [_ite(cnd == 1, A[i], B[i]) for i in range(4)],
                consumed=9, implied=[("condition binary", S.is_bin(S.s[0]))])


# ---- u32 operations: operands "known to be smaller than 2^32" (pre), limbs range-checked ----------
def _u32pre(S, k):
    return [(f"s{i} < 2^32", S.lt(S.s[i], TWO32)) for i in range(k)]


def _split_int(S, total_v, n_hi, n_lo):
    """hi/lo 32-bit halves of an integer-valued z3 term (< 2^64)"""
    return [("bool", lambda n: z3.And(S.v(n) < TWO32, S.v(n) == total_v / TWO32)),
            ("bool", lambda n: S.v(n) == total_v % TWO32)]


def _u32split(S):
    a = S.v(S.s[0])
    return dict(outputs=_split_int(S, a, None, None), consumed=1, rc16=True)


def _u32add(S):
    t = S.v(S.s[0]) + S.v(S.s[1])
    return dict(outputs=_split_int(S, t, None, None), consumed=2, pre=_u32pre(S, 2), rc16=True)


def _u32add3(S):
    t = S.v(S.s[0]) + S.v(S.s[1]) + S.v(S.s[2])
    return dict(outputs=_split_int(S, t, None, None), consumed=3, pre=_u32pre(S, 3), rc16=True)


def _u32sub(S):
    # [b, a] -> [borrow, (a - b) mod 2^32]   (s0 = b is subtracted from s1 = a)
    b, a = S.v(S.s[0]), S.v(S.s[1])
    return dict(outputs=[("bool", lambda n: S.v(n) == z3.If(a < b, 1, 0)),
                         ("bool", lambda n: S.v(n) == z3.If(a < b, a - b + TWO32, a - b))],
                consumed=2, pre=_u32pre(S, 2), rc16=True)


def _u32mul(S):
    c = S.ctx
    prod = S.v(c.mul(S.s[0], S.s[1]))  # integer product by the u32 axiom
    return dict(outputs=_split_int(S, prod, None, None), consumed=2, pre=_u32pre(S, 2), rc16=True, u32mul=True)


def _u32madd(S):
    c = S.ctx
    prod = S.v(c.mul(S.s[0], S.s[1])) + S.v(S.s[2])
    return dict(outputs=_split_int(S, prod, None, None), consumed=3, pre=_u32pre(S, 3), rc16=True, u32mul=True)


def _u32div(S):
    # [b, a] -> [r, q] with a = q*b + r, r < b   (s0 = divisor b, s1 = dividend a); b != 0
    c = S.ctx
    b, a = S.s[0], S.s[1]
    r, q = S.n[0], S.n[1]
    qb = S.v(c.mul(b, q))  # integer product when both < 2^32
    return dict(outputs=[("bool", lambda n: z3.And(S.v(n) < S.v(b))),
                         ("bool", lambda n: z3.And(S.v(n) < TWO32, S.v(a) == qb + S.v(r)))],
                consumed=2, pre=_u32pre(S, 2), rc16=True, u32mul=True,
                implied=[("divisor non-zero", S.v(b) != 0)])


def _u32div_small_rem(S):
    """U32DIV under the additional assumption that the remainder cell is a u32 value: the part of
    the U32DIV obligation that does hold on this AIR (the unrestricted one is a known finding)."""
    d = _u32div(S)
    d["pre"] = d["pre"] + [("s0' < 2^32 (assumed: remainder cell holds a u32 value)", S.lt(S.n[0], TWO32))]
    return d


def _u32assert2(S):
    return dict(outputs=[S.s[0], S.s[1]], consumed=2, rc16=True,
                implied=[("s0 < 2^32", S.lt(S.s[0], TWO32)), ("s1 < 2^32", S.lt(S.s[1], TWO32))])


def _assert(S):
    return dict(outputs=[], consumed=1, implied=[("top is 1", S.v(S.s[0]) == 1)])


def _fmpupdate(S):
    return dict(outputs=[], consumed=1, extra=[("fmp' = fmp + s0", S.ctx.eq(S.fmpn, S.fmp + S.s[0]))])


SPEC = {
    # --- no stack shift -------------------------------------------------------------------------
    "Noop": _nop,
    "Eqz": _eqz,
    "Neg": lambda S: dict(outputs=[-S.s[0]], consumed=1),
    "Inv": _inv,
    "Incr": lambda S: dict(outputs=[S.s[0] + 1], consumed=1),
    "Not": _not,
    "FmpAdd": lambda S: dict(outputs=[S.s[0] + S.fmp], consumed=1),
    "MLoad": lambda S: _mload(S),
    "Swap": lambda S: dict(outputs=[S.s[1], S.s[0]], consumed=2),
    "Caller": _free(16, 16),
    "MovUp2": _movup(2), "MovUp3": _movup(3), "MovUp4": _movup(4), "MovUp5": _movup(5),
    "MovUp6": _movup(6), "MovUp7": _movup(7), "MovUp8": _movup(8),
    "MovDn2": _movdn(2), "MovDn3": _movdn(3), "MovDn4": _movdn(4), "MovDn5": _movdn(5),
    "MovDn6": _movdn(6), "MovDn7": _movdn(7), "MovDn8": _movdn(8),
    "AdvPopW": _free(4, 4),
    "Expacc": _expacc,
    "SwapW": _swapw(1), "SwapW2": _swapw(2), "SwapW3": _swapw(3), "SwapDW": _swapdw,
    "Ext2Mul": _ext2mul,
    # --- left shift -----------------------------------------------------------------------------
    "Assert": _assert,
    "Eq": _eq,
    "Add": lambda S: dict(outputs=[S.s[0] + S.s[1]], consumed=2),
    "Mul": lambda S: dict(outputs=[S.ctx.mul(S.s[0], S.s[1])], consumed=2),
    "And": _and,
    "Or": _or,
    "U32and": _free(1, 2),
    "U32xor": _free(1, 2),
    "FriE2F4": _free(15, 16),
    "Drop": lambda S: dict(outputs=[], consumed=1),
    "CSwap": _cswap,
    "CSwapW": _cswapw,
    "MLoadW": lambda S: _mloadw(S),
    "MStore": lambda S: _mstore(S),
    "MStoreW": lambda S: _mstorew(S),
    "FmpUpdate": _fmpupdate,
    # --- right shift ----------------------------------------------------------------------------
    "Pad": lambda S: dict(outputs=[S.s[0] - S.s[0]], consumed=0),
    "Dup0": _dup(0), "Dup1": _dup(1), "Dup2": _dup(2), "Dup3": _dup(3), "Dup4": _dup(4),
    "Dup5": _dup(5), "Dup6": _dup(6), "Dup7": _dup(7), "Dup9": _dup(9), "Dup11": _dup(11),
    "Dup13": _dup(13), "Dup15": _dup(15),
    "AdvPop": _free(1, 0),
    "SDepth": lambda S: dict(outputs=[S.b0], consumed=0),
    "Clk": lambda S: dict(outputs=[S.clk], consumed=0),
    "Push": _free(1, 0),
    # --- u32 ------------------------------------------------------------------------------------
    "U32add": _u32add, "U32sub": _u32sub, "U32mul": _u32mul, "U32div": _u32div,
    "U32div[rem<2^32]": _u32div_small_rem,
    "U32split": _u32split, "U32assert2": _u32assert2, "U32add3": _u32add3, "U32madd": _u32madd,
    # --- hasher / memory-stream operations: results come over the chiplet bus ---------------------
    "HPerm": _free(12, 12),
    "MpVerify": _nop,
    "Pipe": lambda S: _pipe(S),
    "MStream": lambda S: _mstream(S),
    "MrUpdate": _free(4, 4),
    "RCombBase": _free(16, 16),
    # --- control flow (decoder/main.md): SPLIT and LOOP pop the condition, REPEAT pops the
    #     condition, DYN pops nothing in this version but reads the top 4, JOIN/SPAN/RESPAN/HALT
    #     leave the stack alone, CALL/SYSCALL reset the depth to 16 -----------------------------------
    "Join": _nop, "Span": _nop, "Respan": _nop, "Halt": _nop,
    "Split": lambda S: dict(outputs=[], consumed=1),
    "Loop": lambda S: dict(outputs=[], consumed=1),
    "Repeat": lambda S: dict(outputs=[], consumed=1),
    "Call": lambda S: dict(outputs=[], consumed=0, depth="call"),
    "SysCall": lambda S: dict(outputs=[], consumed=0, depth="call"),
    "Dyn": _free(16, 16, depth="free"),
    # END has three variants, chosen by the is_loop / is_call / is_syscall cells of the current row
    "End": _nop,
    "End[loop]": lambda S: dict(outputs=[], consumed=1),
    "End[call]": lambda S: dict(outputs=[], consumed=0, depth="free"),
    "End[syscall]": lambda S: dict(outputs=[], consumed=0, depth="free"),
}

# Operations whose *result cells* the design does not bind by a main-trace constraint of this AIR
# version (they are FREE above).  Kept explicit so that an operation can never drop out of C04
# silently: every opcode is either fully specified or named here with the reason.
NOT_ENFORCED_BY_MAIN_AIR = {
    "MLoad": "value comes over the memory bus",
    "MLoadW": "value comes over the memory bus",
    "AdvPop": "advice (non-deterministic input)",
    "AdvPopW": "advice (non-deterministic input)",
    "Push": "immediate value comes from the decoder's op group (decoder constraints not in this AIR version)",
    "Caller": "not described in docs/src/design/stack/system_ops.md; the AIR has no positional flags for it (depth b0 is still checked)",
    "U32and": "result comes over the bitwise-chiplet bus",
    "U32xor": "result comes over the bitwise-chiplet bus",
    "HPerm": "result comes over the hasher-chiplet bus",
    "Pipe": "I/O operation (outside C04's listed classes); not described in io_ops.md; only depth b0 is checked",
    "MStream": "I/O operation (outside C04's listed classes); io_ops.md documents s12' = s12 + 2 and no change from position 8, which this AIR version does not implement; only depth b0 is checked",
    "MrUpdate": "hasher-chiplet bus",
    "RCombBase": "memory bus; no main constraint documented",
    "FriE2F4": "documented constraints (crypto_ops.md) not implemented in this AIR version",
    "Dyn": "decoder/block-hash table",
}


def out_cond(S, ncell, o):
    ctx = S.ctx
    if isinstance(o, int) or hasattr(o, "terms"):
        return ctx.eq(ncell, o)
    if o[0] == "ite":
        return z3.If(o[1], ctx.eq(ncell, o[2]), ctx.eq(ncell, o[3]))
    if o[0] == "bool":
        return o[1](ncell)
    raise ValueError(o)



# ---- memory operations (docs/src/design/stack/io_ops.md) -----------------------------------------------------
# With the processor view (C05) the requests made to the memory chiplet are part of the state: the
# specification says which (context, address) is accessed, which word is written and where the word
# that was read ends up (memory word element v_i <-> stack position 3 - i).  With the AIR view (C04)
# the values travel over the bus and stay free.
def _mem_common(S, n_events, kinds):
    ex = [("exactly %d memory request(s): %s" % (n_events, "/".join(kinds)), z3.BoolVal(len(S.mem) == n_events and [m[0] for m in S.mem] == list(kinds)))]
    return ex


def _req(S, j, addr_lin, off=0):
    """conditions on request j: current context, address = value of addr_lin (+off) as a 32-bit integer"""
    kind, args, res = S.mem[j]
    c, a = args[0], args[1]
    cv = c[0].v if hasattr(c, "__getitem__") and not isinstance(c, list) else c.v
    want = S.v(addr_lin) + off
    return [(f"request {j} uses the current memory context", cv == S.ctxid),
            (f"request {j} addresses s-address{'+%d' % off if off else ''}", a.v == want)]


def _mloadw(S):
    if not hasattr(S, "mem"):
        return dict(outputs=[FREE] * 4, consumed=5)
    if len(S.mem) != 1:
        return dict(outputs=[FREE] * 4, consumed=5, extra=_mem_common(S, 1, ["read_mem"]), implied=[("address below 2^32", S.lt(S.s[0], 2**32))])
    w = [x.l for x in S.mem[0][2]]
    return dict(outputs=[w[3], w[2], w[1], w[0]], consumed=5, extra=_mem_common(S, 1, ["read_mem"]) + _req(S, 0, S.s[0]),
                implied=[("address below 2^32", S.lt(S.s[0], 2**32))])


def _mload(S):
    if not hasattr(S, "mem"):
        return dict(outputs=[FREE], consumed=1)
    if len(S.mem) != 1:
        return dict(outputs=[FREE], consumed=1, extra=_mem_common(S, 1, ["read_mem"]), implied=[("address below 2^32", S.lt(S.s[0], 2**32))])
    w = [x.l for x in S.mem[0][2]]
    ex = _mem_common(S, 1, ["read_mem"]) + _req(S, 0, S.s[0])
    ex += [(f"helper h{i} holds word element v{3 - i}", S.ctx.eq(S.hp[i], w[3 - i])) for i in range(3)]
    return dict(outputs=[w[0]], consumed=1, extra=ex, implied=[("address below 2^32", S.lt(S.s[0], 2**32))])


def _mstorew(S):
    if not hasattr(S, "mem"):
        return dict(outputs=[], consumed=1)
    if len(S.mem) != 1:
        return dict(outputs=[], consumed=1, extra=_mem_common(S, 1, ["write_mem"]), implied=[("address below 2^32", S.lt(S.s[0], 2**32))])
    data = [x.l for x in S.mem[0][1][2]]
    ex = _mem_common(S, 1, ["write_mem"]) + _req(S, 0, S.s[0])
    ex += [(f"word element v{i} written = s{4 - i}", S.ctx.eq(data[i], S.s[4 - i])) for i in range(4)]
    return dict(outputs=[], consumed=1, extra=ex, implied=[("address below 2^32", S.lt(S.s[0], 2**32))])


def _mstore(S):
    if not hasattr(S, "mem"):
        return dict(outputs=[], consumed=1)
    if len(S.mem) != 1:
        return dict(outputs=[], consumed=1, extra=_mem_common(S, 1, ["write_mem_element"]), implied=[("address below 2^32", S.lt(S.s[0], 2**32))])
    val = S.mem[0][1][2].l
    old = [x.l for x in S.mem[0][2]]
    ex = _mem_common(S, 1, ["write_mem_element"]) + _req(S, 0, S.s[0]) + [("element written = s1", S.ctx.eq(val, S.s[1]))]
    ex += [(f"helper h{i} holds the untouched word element v{3 - i}", S.ctx.eq(S.hp[i], old[3 - i])) for i in range(3)]
    return dict(outputs=[], consumed=1, extra=ex, implied=[("address below 2^32", S.lt(S.s[0], 2**32))])


def _mstream(S):
    if not hasattr(S, "mem"):
        return dict(outputs=[FREE] * 16, consumed=16)
    if len(S.mem) != 1:
        return dict(outputs=[FREE] * 16, consumed=16, extra=_mem_common(S, 1, ["read_mem_double"]), implied=[("both addresses (a, a+1) below 2^32", S.lt(S.s[12], 2**32 - 1))])
    w = S.mem[0][2]
    a, b = [x.l for x in w[0]], [x.l for x in w[1]]
    # words at addr and addr+1 overwrite the top 8 items (second word on top, each reversed); the address advances by 2
    outs = [b[3], b[2], b[1], b[0], a[3], a[2], a[1], a[0]] + S.s[8:12] + [S.s[12] + 2] + S.s[13:16]
    return dict(outputs=outs, consumed=16, extra=_mem_common(S, 1, ["read_mem_double"]) + _req(S, 0, S.s[12]),
                implied=[("both addresses (a, a+1) below 2^32", S.lt(S.s[12], 2**32 - 1))])


def _pipe(S):
    if not hasattr(S, "mem"):
        return dict(outputs=[FREE] * 16, consumed=16)
    if len(S.mem) != 1 or len(S.adv) != 1:
        return dict(outputs=[FREE] * 16, consumed=16, extra=_mem_common(S, 1, ["write_mem_double"]), implied=[("both addresses (a, a+1) below 2^32", S.lt(S.s[12], 2**32 - 1))])
    w = S.adv[0]
    a, b = [x.l for x in w[0]], [x.l for x in w[1]]
    data = S.mem[0][1][2]
    ex = _mem_common(S, 1, ["write_mem_double"]) + _req(S, 0, S.s[12])
    ex += [(f"advice element {j}.{i} written to memory unchanged", S.ctx.eq(data[j][i].l, (a, b)[j][i])) for j in range(2) for i in range(4)]
    outs = [b[3], b[2], b[1], b[0], a[3], a[2], a[1], a[0]] + S.s[8:12] + [S.s[12] + 2] + S.s[13:16]
    return dict(outputs=outs, consumed=16, extra=ex, implied=[("address below 2^32", S.lt(S.s[12], 2**32))])


def posts_from_spec(S, sp, rc16_assumed=False):
    """(pre: [Bool], posts: [(label, Bool)], pre_labels) for one operation spec over the view S.
    Used with S = AIR cells (C04) and with S = processor state before/after the operation (C05)."""
    ctx = S.ctx
    pre, pre_labels = [], []
    for label, b in sp.get("pre", []):
        pre.append(b)
        pre_labels.append(label)
    if sp.get("rc16") and rc16_assumed:
        for i in range(4):
            pre.append(S.v(S.hp[i]) < 2**16)
        pre_labels.append("h0..h3 < 2^16 (range-checked over the b_range bus)")
    posts = []
    outs, consumed = sp["outputs"], sp["consumed"]
    k = len(outs)
    shift = k - consumed
    assert shift in (-1, 0, 1), shift
    for i, o in enumerate(outs):
        if o is FREE:
            continue
        posts.append((f"s{i}'", out_cond(S, S.n[i], o)))
    b0v = S.v(S.b0)
    for i in range(k, 16):
        src = i - shift
        if src <= 15:
            posts.append((f"s{i}' = s{src}", ctx.eq(S.n[i], S.s[src])))
        else:
            posts.append(("s15' = 0 when depth is 16", z3.Implies(b0v == 16, S.v(S.n[15]) == 0)))
    depth = sp.get("depth")
    if depth == "call":
        posts.append(("b0' = 16", S.v(S.b0n) == 16))
    elif depth == "free":
        pass
    elif shift == 0:
        posts.append(("b0' = b0", ctx.eq(S.b0n, S.b0)))
    elif shift == 1:
        posts.append(("b0' = b0 + 1", ctx.eq(S.b0n, S.b0 + 1)))
        posts.append(("b1' = clk", ctx.eq(S.b1n, S.clk)))
    else:
        posts.append(("b0' = b0 - [b0 != 16]", z3.If(b0v == 16, S.v(S.b0n) == 16, ctx.eq(S.b0n, S.b0 - 1))))
    posts.append(("clk' = clk + 1", ctx.eq(S.clkn, S.clk + 1)))
    for label, b in sp.get("implied", []):
        posts.append((f"implied: {label}", b))
    for label, b in sp.get("extra", []):
        posts.append((label, b))
    return pre, posts, pre_labels
