"""Instruction reference for Miden assembly (C05, C09), transcribed from
docs/src/user_docs/assembly/{field_operations,u32_operations,stack_manipulation,io_operations}.md.

Every entry: (source text, function(ctx, s, v) -> dict) where s[i] are the initial stack items as
linear forms (top first), v[i] their integer values (z3 Int in [0,p)); the dict has
   out      : expected items replacing the first `consumed` items (top first).  An item is a linear form,
              ("int", z3 Int) for an integer-valued result, or ("same", i)
   consumed : number of initial items consumed
   fail     : z3 Bool - exactly the documented failing case (absent: never fails)
   pre      : z3 Bool - operands for which the reference defines the result ("undefined if ...")"""
import z3

from field import Lin

P = 2**64 - 2**32 + 1
T32 = 2**32


def bv(x, n=32):
    return z3.Int2BV(x, n)


def ib(b):
    return z3.BV2Int(b)


def b2i(c):
    return ("int", z3.If(c, 1, 0))


def u32pre(v, n):
    return z3.And([v[i] < T32 for i in range(n)])


def popcnt32(x):
    b = bv(x)
    return sum(z3.BV2Int(z3.Extract(i, i, b)) for i in range(32))


def clz32(x):
    t = z3.IntVal(32)
    for i in range(32):  # highest set bit i -> 31 - i
        t = z3.If(x >= 2**i, 31 - i, t)
    return t


def ctz32(x):
    t = z3.IntVal(32)
    for i in range(31, -1, -1):
        t = z3.If(x % (2 ** (i + 1)) == 2**i, i, t)
    # lowest set bit: iterate from high to low so that the lowest wins
    r = z3.IntVal(32)
    for i in range(31, -1, -1):
        r = z3.If(z3.And(x % (2**i) == 0, (x / (2**i)) % 2 == 1), i, r)
    return r


def clo32(x):
    return clz32(T32 - 1 - x)


def cto32(x):
    return ctz32(T32 - 1 - x)


def ilog2_64(x):
    t = z3.IntVal(0)
    for i in range(64):
        t = z3.If(x >= 2**i, i, t)
    return t


def rotl32(x, k):
    k %= 32
    return (x * 2**k) % T32 + x / 2 ** (32 - k) if k else x


def field_instrs():
    I = {}
    I["add"] = lambda c, s, v: dict(out=[s[1] + s[0]], consumed=2)
    I["sub"] = lambda c, s, v: dict(out=[s[1] - s[0]], consumed=2)
    I["mul"] = lambda c, s, v: dict(out=[c.mul(s[1], s[0])], consumed=2)
    I["div"] = lambda c, s, v: dict(out=[c.mul(s[1], c.inv(s[0]))], consumed=2, fail=v[0] == 0)
    I["neg"] = lambda c, s, v: dict(out=[-s[0]], consumed=1)
    I["inv"] = lambda c, s, v: dict(out=[c.inv(s[0])], consumed=1, fail=v[0] == 0)
    for b in (0, 1, 2, 7, 2**32, P - 1):
        I[f"add.{b}"] = lambda c, s, v, b=b: dict(out=[s[0] + b], consumed=1)
        I[f"sub.{b}"] = lambda c, s, v, b=b: dict(out=[s[0] - b], consumed=1)
        I[f"mul.{b}"] = lambda c, s, v, b=b: dict(out=[s[0].scale(b)], consumed=1)
        I[f"eq.{b}"] = lambda c, s, v, b=b: dict(out=[b2i(v[0] == b)], consumed=1)
        I[f"neq.{b}"] = lambda c, s, v, b=b: dict(out=[b2i(v[0] != b)], consumed=1)
        if b:
            I[f"div.{b}"] = lambda c, s, v, b=b: dict(out=[s[0].scale(pow(b, P - 2, P))], consumed=1)
    I["not"] = lambda c, s, v: dict(out=[1 - s[0]], consumed=1, fail=v[0] > 1)
    I["and"] = lambda c, s, v: dict(out=[b2i(z3.And(v[0] == 1, v[1] == 1))], consumed=2, fail=z3.Or(v[0] > 1, v[1] > 1))
    I["or"] = lambda c, s, v: dict(out=[b2i(z3.Or(v[0] == 1, v[1] == 1))], consumed=2, fail=z3.Or(v[0] > 1, v[1] > 1))
    I["xor"] = lambda c, s, v: dict(out=[b2i(v[0] != v[1])], consumed=2, fail=z3.Or(v[0] > 1, v[1] > 1))
    I["eq"] = lambda c, s, v: dict(out=[b2i(v[0] == v[1])], consumed=2)
    I["neq"] = lambda c, s, v: dict(out=[b2i(v[0] != v[1])], consumed=2)
    I["lt"] = lambda c, s, v: dict(out=[b2i(v[1] < v[0])], consumed=2)
    I["lte"] = lambda c, s, v: dict(out=[b2i(v[1] <= v[0])], consumed=2)
    I["gt"] = lambda c, s, v: dict(out=[b2i(v[1] > v[0])], consumed=2)
    I["gte"] = lambda c, s, v: dict(out=[b2i(v[1] >= v[0])], consumed=2)
    I["is_odd"] = lambda c, s, v: dict(out=[("int", v[0] % 2)], consumed=1)
    I["eqw"] = lambda c, s, v: dict(out=[b2i(z3.And([v[i] == v[i + 4] for i in range(4)]))], consumed=0)
    I["assert"] = lambda c, s, v: dict(out=[], consumed=1, fail=v[0] != 1)
    I["assertz"] = lambda c, s, v: dict(out=[], consumed=1, fail=v[0] != 0)
    I["assert_eq"] = lambda c, s, v: dict(out=[], consumed=2, fail=v[0] != v[1])
    I["assert_eqw"] = lambda c, s, v: dict(out=[], consumed=8, fail=z3.Not(z3.And([v[i] == v[i + 4] for i in range(4)])))
    for n in (0, 1, 2, 3, 4, 5, 7, 8, 9, 15, 16, 31, 32, 33, 64, 255, 256, 1000):
        def f(c, s, v, n=n):
            # a^n as a monomial (built by square-and-multiply; products of atoms are kept in an
            # associative-commutative normal form, so the construction order is irrelevant)
            r, base, e = None, s[0], n
            while e:
                if e & 1:
                    r = base if r is None else c.mul(r, base)
                e >>= 1
                if e:
                    base = c.mul(base, base)
            return dict(out=[r if r is not None else ("int", z3.IntVal(1))], consumed=1)
        I[f"exp.{n}"] = f
    # ext2: (a0 + a1 x)(b0 + b1 x) mod x^2 - x + 2; stack [b1, b0, a1, a0]
    I["ext2add"] = lambda c, s, v: dict(out=[s[2] + s[0], s[3] + s[1]], consumed=4)
    I["ext2sub"] = lambda c, s, v: dict(out=[s[2] - s[0], s[3] - s[1]], consumed=4)
    I["ext2neg"] = lambda c, s, v: dict(out=[-s[0], -s[1]], consumed=2)
    I["ext2mul"] = lambda c, s, v: dict(
        out=[c.mul(s[3], s[0]) + c.mul(s[2], s[1]) + c.mul(s[2], s[0]), c.mul(s[3], s[1]) - c.mul(s[2], s[0]).scale(2)], consumed=4)
    return I


def u32_instrs():
    I = {}
    I["u32test"] = lambda c, s, v: dict(out=[b2i(v[0] < T32)], consumed=0)
    I["u32testw"] = lambda c, s, v: dict(out=[b2i(z3.And([v[i] < T32 for i in range(4)]))], consumed=0)
    I["u32assert"] = lambda c, s, v: dict(out=[], consumed=0, fail=v[0] >= T32)
    I["u32assert2"] = lambda c, s, v: dict(out=[], consumed=0, fail=z3.Or(v[0] >= T32, v[1] >= T32))
    I["u32assertw"] = lambda c, s, v: dict(out=[], consumed=0, fail=z3.Or([v[i] >= T32 for i in range(4)]))
    I["u32cast"] = lambda c, s, v: dict(out=[("int", v[0] % T32)], consumed=1)
    I["u32split"] = lambda c, s, v: dict(out=[("int", v[0] / T32), ("int", v[0] % T32)], consumed=1)
    I["u32overflowing_add"] = lambda c, s, v: dict(out=[b2i(v[0] + v[1] >= T32), ("int", (v[0] + v[1]) % T32)], consumed=2, pre=u32pre(v, 2))
    I["u32wrapping_add"] = lambda c, s, v: dict(out=[("int", (v[0] + v[1]) % T32)], consumed=2, pre=u32pre(v, 2))
    I["u32overflowing_add3"] = lambda c, s, v: dict(out=[("int", (v[0] + v[1] + v[2]) / T32), ("int", (v[0] + v[1] + v[2]) % T32)], consumed=3, pre=u32pre(v, 3))
    I["u32wrapping_add3"] = lambda c, s, v: dict(out=[("int", (v[0] + v[1] + v[2]) % T32)], consumed=3, pre=u32pre(v, 3))
    I["u32overflowing_sub"] = lambda c, s, v: dict(out=[b2i(v[1] < v[0]), ("int", (v[1] - v[0]) % T32)], consumed=2, pre=u32pre(v, 2))
    I["u32wrapping_sub"] = lambda c, s, v: dict(out=[("int", (v[1] - v[0]) % T32)], consumed=2, pre=u32pre(v, 2))

    def prod(c, s):
        return c.value(c.mul(s[0], s[1]))  # integer product for u32 operands (u32 axiom)
    I["u32overflowing_mul"] = lambda c, s, v: dict(out=[("int", prod(c, s) / T32), ("int", prod(c, s) % T32)], consumed=2, pre=u32pre(v, 2))
    I["u32wrapping_mul"] = lambda c, s, v: dict(out=[("int", prod(c, s) % T32)], consumed=2, pre=u32pre(v, 2))
    I["u32overflowing_madd"] = lambda c, s, v: dict(out=[("int", (prod(c, s) + v[2]) / T32), ("int", (prod(c, s) + v[2]) % T32)], consumed=3, pre=u32pre(v, 3))
    I["u32wrapping_madd"] = lambda c, s, v: dict(out=[("int", (prod(c, s) + v[2]) % T32)], consumed=3, pre=u32pre(v, 3))
    for b in (1, 2, 3, 7, 2**16, 2**31, 2**32 - 1):
        I[f"u32overflowing_add.{b}"] = lambda c, s, v, b=b: dict(out=[b2i(v[0] + b >= T32), ("int", (v[0] + b) % T32)], consumed=1, pre=u32pre(v, 1))
        I[f"u32wrapping_add.{b}"] = lambda c, s, v, b=b: dict(out=[("int", (v[0] + b) % T32)], consumed=1, pre=u32pre(v, 1))
        I[f"u32overflowing_sub.{b}"] = lambda c, s, v, b=b: dict(out=[b2i(v[0] < b), ("int", (v[0] - b) % T32)], consumed=1, pre=u32pre(v, 1))
        I[f"u32wrapping_sub.{b}"] = lambda c, s, v, b=b: dict(out=[("int", (v[0] - b) % T32)], consumed=1, pre=u32pre(v, 1))
        I[f"u32overflowing_mul.{b}"] = lambda c, s, v, b=b: dict(out=[("int", (v[0] * b) / T32), ("int", (v[0] * b) % T32)], consumed=1, pre=u32pre(v, 1))
        I[f"u32wrapping_mul.{b}"] = lambda c, s, v, b=b: dict(out=[("int", (v[0] * b) % T32)], consumed=1, pre=u32pre(v, 1))
        I[f"u32div.{b}"] = lambda c, s, v, b=b: dict(out=[("int", v[0] / b)], consumed=1, pre=u32pre(v, 1))
        I[f"u32mod.{b}"] = lambda c, s, v, b=b: dict(out=[("int", v[0] % b)], consumed=1, pre=u32pre(v, 1))
        I[f"u32divmod.{b}"] = lambda c, s, v, b=b: dict(out=[("int", v[0] % b), ("int", v[0] / b)], consumed=1, pre=u32pre(v, 1))
    # q, r characterised without symbolic division: a = q*b + r, r < b (q*b is the integer product of u32 values)
    I["u32div"] = lambda c, s, v: dict(out=[("divq", 1, 0)], consumed=2, pre=u32pre(v, 2), fail=v[0] == 0)
    I["u32mod"] = lambda c, s, v: dict(out=[("divr", 1, 0)], consumed=2, pre=u32pre(v, 2), fail=v[0] == 0)
    I["u32divmod"] = lambda c, s, v: dict(out=[("divr", 1, 0), ("divq", 1, 0)], consumed=2, pre=u32pre(v, 2), fail=v[0] == 0)
    notu32 = lambda v, n: z3.Or([v[i] >= T32 for i in range(n)])  # noqa: E731
    I["u32and"] = lambda c, s, v: dict(out=[("int", ib(bv(v[0]) & bv(v[1])))], consumed=2, fail=notu32(v, 2))
    I["u32or"] = lambda c, s, v: dict(out=[("int", ib(bv(v[0]) | bv(v[1])))], consumed=2, fail=notu32(v, 2))
    I["u32xor"] = lambda c, s, v: dict(out=[("int", ib(bv(v[0]) ^ bv(v[1])))], consumed=2, fail=notu32(v, 2))
    I["u32not"] = lambda c, s, v: dict(out=[("int", T32 - 1 - v[0])], consumed=1, fail=notu32(v, 1))
    for b in range(0, 32):
        I[f"u32shl.{b}"] = lambda c, s, v, b=b: dict(out=[("int", (v[0] * 2**b) % T32)], consumed=1, pre=u32pre(v, 1))
        I[f"u32shr.{b}"] = lambda c, s, v, b=b: dict(out=[("int", v[0] / 2**b)], consumed=1, pre=u32pre(v, 1))
        I[f"u32rotl.{b}"] = lambda c, s, v, b=b: dict(out=[("int", rotl32(v[0], b))], consumed=1, pre=u32pre(v, 1))
        I[f"u32rotr.{b}"] = lambda c, s, v, b=b: dict(out=[("int", rotl32(v[0], 32 - b))], consumed=1, pre=u32pre(v, 1))
    I["u32popcnt"] = lambda c, s, v: dict(out=[("int", popcnt32(v[0]))], consumed=1, pre=u32pre(v, 1))
    # results computed with the help of prover-supplied advice (C09): whatever the host answers, a
    # completed execution must hold the mathematical result
    I["u32clz"] = lambda c, s, v: dict(out=[("int", clz32(v[0]))], consumed=1, pre=u32pre(v, 1), advice=True)
    I["u32ctz"] = lambda c, s, v: dict(out=[("int", ctz32(v[0]))], consumed=1, pre=u32pre(v, 1), advice=True)
    I["u32clo"] = lambda c, s, v: dict(out=[("int", clo32(v[0]))], consumed=1, pre=u32pre(v, 1), advice=True)
    I["u32cto"] = lambda c, s, v: dict(out=[("int", cto32(v[0]))], consumed=1, pre=u32pre(v, 1), advice=True)
    I["ilog2"] = lambda c, s, v: dict(out=[("int", ilog2_64(v[0]))], consumed=1, fail=v[0] == 0, advice=True)
    I["u32lt"] = lambda c, s, v: dict(out=[b2i(v[1] < v[0])], consumed=2, pre=u32pre(v, 2))
    I["u32lte"] = lambda c, s, v: dict(out=[b2i(v[1] <= v[0])], consumed=2, pre=u32pre(v, 2))
    I["u32gt"] = lambda c, s, v: dict(out=[b2i(v[1] > v[0])], consumed=2, pre=u32pre(v, 2))
    I["u32gte"] = lambda c, s, v: dict(out=[b2i(v[1] >= v[0])], consumed=2, pre=u32pre(v, 2))
    I["u32min"] = lambda c, s, v: dict(out=[("int", z3.If(v[1] < v[0], v[1], v[0]))], consumed=2, pre=u32pre(v, 2))
    I["u32max"] = lambda c, s, v: dict(out=[("int", z3.If(v[1] > v[0], v[1], v[0]))], consumed=2, pre=u32pre(v, 2))
    return I


def stack_instrs():
    I = {}
    I["drop"] = lambda c, s, v: dict(out=[], consumed=1)
    I["dropw"] = lambda c, s, v: dict(out=[], consumed=4)
    I["padw"] = lambda c, s, v: dict(out=[("int", z3.IntVal(0))] * 4, consumed=0)
    for n in range(16):
        I[f"dup.{n}"] = lambda c, s, v, n=n: dict(out=[s[n]], consumed=0)
    for n in range(4):
        I[f"dupw.{n}"] = lambda c, s, v, n=n: dict(out=s[4 * n:4 * n + 4], consumed=0)
    for n in range(1, 16):
        I[f"swap.{n}"] = lambda c, s, v, n=n: dict(out=[s[n]] + s[1:n] + [s[0]], consumed=n + 1)
    for n in range(1, 4):
        I[f"swapw.{n}"] = lambda c, s, v, n=n: dict(out=s[4 * n:4 * n + 4] + s[4:4 * n] + s[0:4], consumed=4 * n + 4)
    I["swapdw"] = lambda c, s, v: dict(out=s[8:16] + s[0:8], consumed=16)
    for n in range(2, 16):
        I[f"movup.{n}"] = lambda c, s, v, n=n: dict(out=[s[n]] + s[0:n], consumed=n + 1)
        I[f"movdn.{n}"] = lambda c, s, v, n=n: dict(out=s[1:n + 1] + [s[0]], consumed=n + 1)
    for n in (2, 3):
        I[f"movupw.{n}"] = lambda c, s, v, n=n: dict(out=s[4 * n:4 * n + 4] + s[0:4 * n], consumed=4 * n + 4)
        I[f"movdnw.{n}"] = lambda c, s, v, n=n: dict(out=s[4:4 * n + 4] + s[0:4], consumed=4 * n + 4)
    I["cswap"] = lambda c, s, v: dict(out=[("ite", v[0] == 1, s[2], s[1]), ("ite", v[0] == 1, s[1], s[2])], consumed=3, fail=v[0] > 1)
    I["cswapw"] = lambda c, s, v: dict(out=[("ite", v[0] == 1, s[5 + i], s[1 + i]) for i in range(4)] + [("ite", v[0] == 1, s[1 + i], s[5 + i]) for i in range(4)],
                                      consumed=9, fail=v[0] > 1)
    I["cdrop"] = lambda c, s, v: dict(out=[("ite", v[0] == 1, s[1], s[2])], consumed=3, fail=v[0] > 1)
    I["cdropw"] = lambda c, s, v: dict(out=[("ite", v[0] == 1, s[1 + i], s[5 + i]) for i in range(4)], consumed=9, fail=v[0] > 1)
    for a in (0, 1, 2**32, P - 1):
        I[f"push.{a}"] = lambda c, s, v, a=a: dict(out=[("int", z3.IntVal(a))], consumed=0)
    I["push.1.2.3"] = lambda c, s, v: dict(out=[("int", z3.IntVal(3)), ("int", z3.IntVal(2)), ("int", z3.IntVal(1))], consumed=0)
    I["sdepth"] = lambda c, s, v: dict(out=[("depth",)], consumed=0)
    return I


def ext2_instrs():
    """quadratic extension F_p[x]/(x^2 - x + 2): elements (e0, e1) = e0 + e1*x, e1 above e0 on the stack"""
    I = {}

    def inv_relation(ctx, final, s):
        # final[0] = a1', final[1] = a0'; s[0] = a1, s[1] = a0:  (a0 + a1 x)(a0' + a1' x) = 1
        a1, a0, b1, b0 = s[0], s[1], final[0].l, final[1].l
        c0 = ctx.mul(a0, b0) - ctx.mul(a1, b1).scale(2)
        c1 = ctx.mul(a0, b1) + ctx.mul(a1, b0) + ctx.mul(a1, b1)
        return [("result * operand = 1 in the quadratic extension (constant part)", ctx.eq(c0, Lin({}, 1))),
                ("result * operand = 1 in the quadratic extension (x part)", ctx.eq(c1, Lin({}, 0)))]

    I["ext2inv"] = lambda c, s, v: dict(out=[("any",), ("any",)], consumed=2, relation=inv_relation, advice=True, lazy=True, fail=z3.And(v[0] == 0, v[1] == 0))
    return I


def mem_instrs():
    """memory instructions with an immediate address: which request reaches the memory chiplet (current context,
    the immediate as address, the word written) and where the word read ends up (word element i at stack position 3 - i)"""
    I = {}

    def mem_events(events):
        return [e for e in events if e[0] == "chiplets" and "mem" in e[1]]

    def req_ok(ev, kind, addr):
        c_ = ev[2][0]
        cv = c_[0].v if not isinstance(c_, list) and hasattr(c_, "__getitem__") else c_.v
        a_ = ev[2][1].v
        return [("one memory request of the right kind", z3.BoolVal(ev[1].endswith(kind))),
                ("the request uses the current context", cv == z3.Int("ctxid")),
                ("the request addresses the immediate", a_ == addr)]

    for a in (0, 1, 7, 2**32 - 1):
        def loadw(ctx, final, s, events, a=a):
            ms = mem_events(events)
            if len(ms) != 1:
                return [("exactly one memory request", z3.BoolVal(False))]
            w = ms[0][3]
            return req_ok(ms[0], "read_mem", a) + [(f"word element {i} lands at position {3 - i}", ctx.eq(final[3 - i].l, w[i].l)) for i in range(4)]
        I[f"mem_loadw.{a}"] = lambda c, s, v, f=loadw: dict(out=[("any",)] * 4, consumed=4, relation=f)

        def load(ctx, final, s, events, a=a):
            ms = mem_events(events)
            if len(ms) != 1:
                return [("exactly one memory request", z3.BoolVal(False))]
            return req_ok(ms[0], "read_mem", a) + [("the first element of the word is pushed", ctx.eq(final[0].l, ms[0][3][0].l))]
        I[f"mem_load.{a}"] = lambda c, s, v, f=load: dict(out=[("any",)], consumed=0, relation=f)

        def storew(ctx, final, s, events, a=a):
            ms = mem_events(events)
            if len(ms) != 1:
                return [("exactly one memory request", z3.BoolVal(False))]
            data = ms[0][2][2]
            return req_ok(ms[0], "write_mem", a) + [(f"word element {i} written = stack item {3 - i}", ctx.eq(data[i].l, s[3 - i])) for i in range(4)]
        I[f"mem_storew.{a}"] = lambda c, s, v, f=storew: dict(out=[("same", i) for i in range(4)], consumed=4, relation=f)

        def store(ctx, final, s, events, a=a):
            ms = mem_events(events)
            if len(ms) != 1:
                return [("exactly one memory request", z3.BoolVal(False))]
            return req_ok(ms[0], "write_mem_element", a) + [("the element written is the top of the stack", ctx.eq(ms[0][2][2].l, s[0]))]
        I[f"mem_store.{a}"] = lambda c, s, v, f=store: dict(out=[], consumed=1, relation=f)
    return I


def all_instrs():
    d = {}
    d.update(mem_instrs())
    d.update(ext2_instrs())
    d.update(field_instrs())
    d.update(u32_instrs())
    d.update(stack_instrs())
    return d
