"""Models of the processor's components for Engine C and the registry of natively modelled callees.

What is interpreted from MIR: the op_* bodies, execute_op, helpers (assert_binary, split_element, ...),
block executors.  What is modelled here (listed in evidence as the trusted component API):
  Stack::{get,set,copy_state,shift_left,shift_right,...} over an abstract stack with the trace's
  bookkeeping columns (b0, b1), System accessors, Decoder/RangeChecker/Chiplets/Host as event logs,
  Felt arithmetic by its mathematical meaning, a fixed list of core/alloc items."""
import os
import re

import z3

from field import P, Lin, lin
from mir_parse import Unsupported
from mirsym import En, F, I, INT_BITS, Opaque, Panic, Ref, Struct, UNIT, is_sym, clone


# ---- enum tables from the source ---------------------------------------------------------------------
def enum_variants(path, enum_name):
    src = open(path).read()
    m = re.search(r"pub enum %s\s*(?:<[^>]*>)?\s*\{" % re.escape(enum_name), src)
    if not m:
        raise Unsupported(f"enum {enum_name} not found in {path}")
    i = m.end()
    depth = 1
    body = []
    while depth:
        ch = src[i]
        if ch == "{":
            depth += 1
        elif ch == "}":
            depth -= 1
        body.append(ch)
        i += 1
    body = "".join(body[:-1])
    body = re.sub(r"//[^\n]*", "", body)
    body = re.sub(r"#\[[^\]]*\]", "", body)
    out = []
    depth = 0
    cur = []
    for ch in body:
        if ch in "({[<":
            depth += 1
        elif ch in ")}]>":
            depth -= 1
        if ch == "," and depth == 0:
            out.append("".join(cur).strip())
            cur = []
        else:
            cur.append(ch)
    if "".join(cur).strip():
        out.append("".join(cur).strip())
    return [re.match(r"\w+", v).group(0) for v in out if v]


# ---- component models ----------------------------------------------------------------------------------
class StackModel:
    """abstract stack: current top 16, next top 16 (None = not written), overflow (list, top last),
    depth as python int (one regime per run), bookkeeping b0/b1 of the current and next row."""

    def __init__(self, top, overflow, b1):
        self.top = list(top)
        self.next = [None] * 16
        self.overflow = list(overflow)  # list of (value F, clk F) ; last = top of the table
        self.depth = 16 + len(overflow)
        self.b1 = b1  # last_row_addr (F)
        self.next_b0 = None
        self.next_b1 = None
        self.log = []
        self.multi_step = False
        self.history = []

    def get(self, pos):
        if pos >= 16:
            raise Panic("stack underflow index")
        return self.top[pos]

    def set(self, pos, v):
        self.next[pos] = v

    def copy_state(self, start):
        for i in range(start, 16):
            self.next[i] = self.top[i]
        self.next_b0 = F(Lin({}, self.depth))
        self.next_b1 = self.b1
        self.log.append(("copy_state", start))

    def shift_left(self, start, interp):
        if self.depth == 16:
            for i in range(start, 16):
                self.next[i - 1] = self.top[i]
            self.next[15] = F(Lin({}, 0))
            self.next_b0 = F(Lin({}, self.depth))
            self.next_b1 = self.b1
        else:
            val, clk, prev = self.overflow.pop()
            self.b1 = prev
            for i in range(start, 16):
                self.next[i - 1] = self.top[i]
            self.next[15] = val
            self.next_b0 = F(Lin({}, self.depth - 1))
            self.next_b1 = prev
            self.depth -= 1
        self.log.append(("shift_left", start))

    def shift_right(self, start, clk):
        for i in range(start, 15):
            self.next[i + 1] = self.top[i]
        self.overflow.append((self.top[15], clk, self.b1))
        self.b1 = clk
        self.depth += 1
        self.next_b0 = F(Lin({}, self.depth))
        self.next_b1 = clk
        self.log.append(("shift_right", start))


class SystemModel:
    def __init__(self, clk, ctx, fmp, in_syscall, fn_hash):
        self.clk, self.ctx, self.fmp, self.in_syscall, self.fn_hash = clk, ctx, fmp, in_syscall, fn_hash
        self.next_fmp = None


class LogModel:
    """component the interpreter does not look into: calls on it are logged by natives; any direct
    field access from interpreted code is outside the subset"""

    def __init__(self, name):
        self.name = name
        self.events = []

    def __getitem__(self, k):
        raise Unsupported(f"field access into opaque component {self.name}")

    def __setitem__(self, k, v):
        raise Unsupported(f"field store into opaque component {self.name}")

    def field_box(self, interp, idx, ty):
        raise Unsupported(f"field access into opaque component {self.name} ({ty})")


class ProcessModel:
    """&mut Process<H>: fields are resolved by the type annotation MIR prints on the projection"""

    def __init__(self, stack, system, max_cycles):
        self.stack, self.system = stack, system
        self.decoder = LogModel("decoder")
        self.range = LogModel("range")
        self.chiplets = LogModel("chiplets")
        self.host = LogModel("host")
        self.max_cycles = max_cycles
        self.enable_tracing = False
        self._fields = {}

    def field_box(self, interp, idx, ty):
        if idx not in self._fields:
            t = ty.replace(" ", "")
            if t.endswith("stack::Stack"):
                v = self.stack
            elif t.endswith("system::System"):
                v = self.system
            elif t.endswith("decoder::Decoder"):
                v = self.decoder
            elif t.endswith("range::RangeChecker"):
                v = self.range
            elif t.endswith("chiplets::Chiplets"):
                v = self.chiplets
            elif "RefCell<H>" in t:
                v = self.host
            elif t == "u32":
                v = self.max_cycles
            elif t == "bool":
                v = self.enable_tracing
            else:
                raise Unsupported(f"Process field {idx}: {ty}")
            self._fields[idx] = v
        return self._fields


def deref(x):
    while isinstance(x, Ref):
        x = x.get()
    return x


# ---- native handlers -----------------------------------------------------------------------------------
def felt_of(interp, v):
    v = deref(v)
    if isinstance(v, F):
        return v.l
    raise Unsupported(f"expected Felt, got {v!r}")


RECOGNISE_TIMEOUT_MS = 250


def felt_from_int(interp, i):
    """Felt::new / From<uN>: value mod p"""
    x = i.v if isinstance(i, I) else i
    if isinstance(x, int):
        return F(Lin({}, x % P))
    bits = INT_BITS[i.ty] if isinstance(i, I) else 64
    ctx = interp.ctx
    # Felt::new(f.as_int()) and friends: the integer is (after simplification) the canonical value
    # of a field element the encoding already knows - keep its linear form (and monomial identity)
    xs = z3.simplify(x)
    back = ctx.lin_of_value(xs)
    if back is not None:
        return F(back)
    if z3.is_int_value(xs):
        return F(Lin({}, xs.as_long() % P))
    # the same, when the equality with a known field value needs arithmetic reasoning (e.g. the
    # wrapping `(x - 1) * 1 + 1` of op_expacc): ask the solver for each field value occurring in xs
    xf = z3.If(xs >= P, xs - P, xs) if bits > 32 else xs
    # (short time cap: failing to recognise only loses the identity, never soundness)
    for cand in _field_consts(ctx, xs):
        interp.sync_side()
        interp.solver.push()
        interp.solver.add(xf != cand)
        interp.solver.set("timeout", RECOGNISE_TIMEOUT_MS)
        r = interp.solver.check()
        interp.solver.set("timeout", interp.timeout_ms)
        interp.solver.pop()
        if r == z3.unsat:
            return F(ctx.lin_of_value(cand))
    name = interp.fresh("fe")
    a = ctx.var(name)
    za = ctx.atoms[name]
    if bits <= 32:
        ctx.side.append(za == x)
    else:
        ctx.side.append(za == z3.If(x >= P, x - P, x))
    ctx.int_defs = getattr(ctx, "int_defs", {})
    ctx.int_defs[name] = x
    return F(a)


def _field_consts(ctx, e, limit=4):
    """z3 constants inside e that are field values known to the encoding"""
    out, seen, todo = [], set(), [e]
    while todo and len(out) < limit:
        t = todo.pop()
        if t.get_id() in seen:
            continue
        seen.add(t.get_id())
        if z3.is_const(t) and t.decl().kind() == z3.Z3_OP_UNINTERPRETED:
            if ctx.lin_of_value(t) is not None:
                out.append(t)
            continue
        todo.extend(t.children())
    return out


def n_as_int(interp, args, dty, m):
    l = felt_of(interp, args[0])
    if l.is_const():
        return I(l.const, "u64")
    return I(interp.ctx.value(l), "u64")


def n_felt_new(interp, args, dty, m):
    return felt_from_int(interp, args[0])


def n_felt_from(interp, args, dty, m):
    a = args[0]
    if isinstance(a, bool):
        return F(Lin({}, 1 if a else 0))
    if isinstance(a, z3.BoolRef):
        return felt_from_int(interp, I(z3.If(a, 1, 0), "u8"))
    if isinstance(a, I):
        return felt_from_int(interp, a)
    a = deref(a)
    if isinstance(a, Struct) and isinstance(a.get(0), I):
        # ContextId(u32) newtype: `context_id.0.into()`
        return felt_from_int(interp, a[0])
    if isinstance(a, En) and len(a.fields) == 1 and isinstance(a.fields[0], I):
        return felt_from_int(interp, a.fields[0])
    raise Unsupported(f"Felt::from({a!r})")


class SystemCtx:
    """ContextId value"""

    def __init__(self, f):
        self.f = f


def n_felt_bin(op):
    def h(interp, args, dty, m):
        a, b = felt_of(interp, args[0]), felt_of(interp, args[1])
        if op == "add":
            return F(a + b)
        if op == "sub":
            return F(a - b)
        if op == "mul":
            return F(interp.ctx.mul(a, b))
        if op == "div":
            return F(interp.ctx.mul(a, interp.ctx.inv(b)))
        raise Unsupported(op)
    return h


def n_felt_assign(op):
    def h(interp, args, dty, m):
        r = args[0]
        a, b = felt_of(interp, r), felt_of(interp, args[1])
        v = {"add": lambda: a + b, "sub": lambda: a - b, "mul": lambda: interp.ctx.mul(a, b)}[op]()
        r.set(F(v))
        return UNIT
    return h


def n_felt_neg(interp, args, dty, m):
    return F(-felt_of(interp, args[0]))


def n_felt_inv(interp, args, dty, m):
    return F(interp.ctx.inv(felt_of(interp, args[0])))


def n_felt_eq(neg):
    def h(interp, args, dty, m):
        a, b = felt_of(interp, args[0]), felt_of(interp, args[1])
        c = interp.ctx.eq(a, b)
        c = z3.simplify(c)
        if z3.is_true(c):
            return not neg
        if z3.is_false(c):
            return neg
        return z3.Not(c) if neg else c
    return h


def n_felt_square(interp, args, dty, m):
    a = felt_of(interp, args[0])
    return F(interp.ctx.mul(a, a))


def n_felt_double(interp, args, dty, m):
    a = felt_of(interp, args[0])
    return F(a + a)


def _stack(args):
    s = deref(args[0])
    if not isinstance(s, StackModel):
        raise Unsupported(f"expected Stack, got {s!r}")
    return s


def _pos(a):
    v = a.v if isinstance(a, I) else a
    if not isinstance(v, int):
        raise Unsupported("symbolic stack position")
    return v


def n_stack_get(interp, args, dty, m):
    return _stack(args).get(_pos(args[1]))


def n_stack_get_word(interp, args, dty, m):
    s = _stack(args)
    o = _pos(args[1]) * 4
    return [s.get(o + 3), s.get(o + 2), s.get(o + 1), s.get(o)]


def n_stack_set(interp, args, dty, m):
    _stack(args).set(_pos(args[1]), deref(args[2]))
    interp.events.append(("stack", "set"))
    return UNIT


def n_stack_copy_state(interp, args, dty, m):
    _stack(args).copy_state(_pos(args[1]))
    interp.events.append(("stack", "copy_state"))
    return UNIT


def n_stack_shift_left(interp, args, dty, m):
    _stack(args).shift_left(_pos(args[1]), interp)
    interp.events.append(("stack", "shift_left"))
    return UNIT


def n_stack_shift_right(interp, args, dty, m):
    s = _stack(args)
    s.shift_right(_pos(args[1]), interp.models.system.clk_felt(interp))
    interp.events.append(("stack", "shift_right"))
    return UNIT


def n_stack_depth(interp, args, dty, m):
    return I(_stack(args).depth, "usize")


def n_stack_peek(interp, args, dty, m):
    return _stack(args).get(0)


def _system(args):
    s = deref(args[0])
    if not isinstance(s, SystemModel):
        raise Unsupported(f"expected System, got {s!r}")
    return s


def clk_felt(self, interp):
    c = self.clk
    if isinstance(c.v, int):
        return F(Lin({}, c.v))
    return felt_from_int(interp, c)


SystemModel.clk_felt = clk_felt


def n_sys_clk(interp, args, dty, m):
    return _system(args).clk


def n_sys_ctx(interp, args, dty, m):
    return _system(args).ctx


def n_sys_fmp(interp, args, dty, m):
    return _system(args).fmp


def n_sys_set_fmp(interp, args, dty, m):
    _system(args).fmp = deref(args[1])
    return UNIT


def n_sys_in_syscall(interp, args, dty, m):
    return _system(args).in_syscall


def n_sys_fn_hash(interp, args, dty, m):
    return clone(_system(args).fn_hash)


def n_log(component, fname):
    def h(interp, args, dty, m):
        tgt = deref(args[0])
        vals = [deref(a) for a in args[1:]]
        interp.events.append((component, fname, vals))
        if isinstance(tgt, LogModel):
            tgt.events.append((fname, vals))
        return UNIT
    return h


def n_try_branch(interp, args, dty, m):
    r = deref(args[0])
    if not isinstance(r, En):
        raise Unsupported(f"Try::branch on {r!r}")
    if r.variant in ("Ok", "Some"):
        return En("Continue", [r.fields[0] if r.fields else UNIT], ty="ControlFlow")
    return En("Break", [En(r.variant, list(r.fields), ty=r.ty)], ty="ControlFlow")


def n_from_residual(interp, args, dty, m):
    r = deref(args[0])
    if isinstance(r, En):
        return En(r.variant, list(r.fields), ty=dty)
    raise Unsupported(f"from_residual on {r!r}")


def n_identity(interp, args, dty, m):
    return args[0]


def n_unit(interp, args, dty, m):
    return UNIT


def n_wrapping(op):
    def h(interp, args, dty, m):
        a, b = args
        return interp.binop({"add": "Add", "sub": "Sub", "mul": "Mul"}[op], a, b, a.ty)
    return h


def n_overflowing(op):
    def h(interp, args, dty, m):
        a, b = args
        return interp.binop({"add": "AddWithOverflow", "sub": "SubWithOverflow", "mul": "MulWithOverflow"}[op], a, b, a.ty)
    return h


def n_checked(op):
    def h(interp, args, dty, m):
        a, b = args
        if op in ("div", "rem"):
            bz = b.v == 0 if not isinstance(b.v, int) else (b.v == 0)
            if interp.decide(bz):
                return En("None", [], ty="Option")
            return En("Some", [interp.binop("Div" if op == "div" else "Rem", a, b, a.ty)], ty="Option")
        r, ovf = interp.binop({"add": "AddWithOverflow", "sub": "SubWithOverflow", "mul": "MulWithOverflow"}[op], a, b, a.ty)
        if interp.decide(ovf):
            return En("None", [], ty="Option")
        return En("Some", [r], ty="Option")
    return h


def n_range_next(interp, args, dty, m):
    r = deref(args[0])
    start, end = r["start"], r["end"]
    lt = interp.binop("Lt", start, end, "bool")
    if interp.decide(lt):
        nxt = interp.binop("Add", start, I(1, start.ty), start.ty)
        r["start"] = nxt
        r[0] = nxt
        return En("Some", [start], ty="Option")
    return En("None", [], ty="Option")


def n_fresh_felt_result(n):
    """adversarial host: every value it returns is an unconstrained field element"""
    def h(interp, args, dty, m):
        def fe():
            script = getattr(interp, "advice_script", None)
            if script:
                # honest-host runs: the next scripted hint value instead of an adversarial one
                return F(Lin({}, script.pop(0) % P))
            return F(interp.ctx.var(interp.fresh("adv")))
        if n == 1:
            v = fe()
        elif n == 4:
            v = [fe() for _ in range(4)]
        else:
            v = [[fe() for _ in range(4)] for _ in range(2)]
        interp.events.append(("host", m.group(0)[:60], v))
        return En("Ok", [v], ty="Result")
    return h


def n_on_assert_failed(interp, args, dty, m):
    # Host::on_assert_failed (trait default): ExecutionError::FailedAssertion { clk, err_code, err_msg: None }
    proc = deref(args[1])
    st = Struct()
    st["clk"] = st[0] = proc.system.clk
    st["err_code"] = st[1] = args[2]
    st["err_msg"] = st[2] = En("None", [], ty="Option")
    e = En("FailedAssertion", [st["clk"], st["err_code"], st["err_msg"]], ty="ExecutionError")
    return e


def n_pow(interp, args, dty, m):
    a, b = args
    if isinstance(a.v, int) and isinstance(b.v, int):
        return I(pow(a.v, b.v) % (1 << INT_BITS[a.ty]), a.ty)
    raise Unsupported("symbolic pow")


def n_chiplets(kind):
    """chiplet calls are logged with their arguments; results are unconstrained (the bus ties
    them to the chiplet; memory/bitwise semantics are separate obligations)"""
    def h(interp, args, dty, m):
        vals = [deref(a) for a in args[1:]]
        def fe():
            return F(interp.ctx.var(interp.fresh("chip")))
        if kind == "word":
            r = [fe() for _ in range(4)]
        elif kind == "dword":
            r = [[fe() for _ in range(4)] for _ in range(2)]
        elif kind == "felt_result":
            r = En("Ok", [fe()], ty="Result")
        elif kind == "unit":
            r = UNIT
        else:
            raise Unsupported(kind)
        # the log keeps its own copies: callers may permute the returned / passed lists in place
        snap = lambda x: [snap(y) for y in x] if isinstance(x, list) else x  # noqa: E731
        interp.events.append(("chiplets", m.group(0), [snap(v) for v in vals], snap(r)))
        return r
    return h


def n_chiplets_bitwise(kind):
    """Chiplets::u32and / u32xor: the bitwise chiplet's processor side (Bitwise::u32and rejects
    operands that are not u32 values and returns the bitwise result); modelled exactly with
    bit-vector semantics.  The chiplet's constraints are C04's obligation."""
    def h(interp, args, dty, m):
        a, b = deref(args[1]), deref(args[2])
        ctx = interp.ctx
        av, bvv = ctx.value(a.l), ctx.value(b.l)
        interp.events.append(("chiplets", m.group(0), [a, b]))
        if interp.decide(av >= 2**32):
            return En("Err", [En("NotU32Value", [a, F(Lin({}, 0))], ty="ExecutionError")], ty="Result")
        if interp.decide(bvv >= 2**32):
            return En("Err", [En("NotU32Value", [b, F(Lin({}, 0))], ty="ExecutionError")], ty="Result")
        x, y = z3.Int2BV(av, 32), z3.Int2BV(bvv, 32)
        r = z3.BV2Int(x & y if kind == "and" else x ^ y)
        rs = z3.simplify(r)
        if z3.is_int_value(rs):
            return En("Ok", [F(Lin({}, rs.as_long()))], ty="Result")
        name = interp.fresh("bw")
        res = ctx.var(name, 2**32 - 1)
        ctx.side.append(ctx.atoms[name] == r)
        # companion identities of 32-bit words (a|b = a + b - (a&b), a^b = a + b - 2(a&b)): true facts
        # stated here so that queries mixing integer arithmetic with the bit-level result stay cheap
        if kind == "and":
            ctx.side.append(av + bvv - ctx.atoms[name] == z3.BV2Int(x | y))
        else:
            ctx.side.append(av + bvv - ctx.atoms[name] == 2 * z3.BV2Int(x & y))
        return En("Ok", [F(res)], ty="Result")
    return h


def n_opaque(interp, args, dty, m):
    return Opaque(m.group(0)[:40])


def n_panic(interp, args, dty, m):
    raise Panic(f"explicit panic: {m.group(0)[:60]}")


def n_option_expect(interp, args, dty, m):
    o = deref(args[0])
    if isinstance(o, En) and o.variant in ("Some", "Ok"):
        return o.fields[0]
    if isinstance(o, En) and o.variant in ("None", "Err"):
        raise Panic("expect/unwrap on None/Err")
    raise Unsupported(f"expect on {o!r}")


def n_try_from_u64_felt(interp, args, dty, m):
    a = args[0]
    x = a.v
    if isinstance(x, int):
        return En("Ok", [F(Lin({}, x))], ty="Result") if x < P else En("Err", [Opaque("TryFromError")], ty="Result")
    if interp.decide(x < P):
        return En("Ok", [felt_from_int(interp, a)], ty="Result")
    return En("Err", [Opaque("TryFromError")], ty="Result")


def _ctxid(v):
    s = Struct()
    s[0] = v
    return s


def R(p):
    return re.compile(p)


NATIVES = [
    (R(r"Stack::get"), n_stack_get),
    (R(r"Stack::get_word"), n_stack_get_word),
    (R(r"Stack::set"), n_stack_set),
    (R(r"Stack::copy_state"), n_stack_copy_state),
    (R(r"Stack::shift_left"), n_stack_shift_left),
    (R(r"Stack::shift_right"), n_stack_shift_right),
    (R(r"Stack::depth"), n_stack_depth),
    (R(r"Stack::peek"), n_stack_peek),
    (R(r"Felt::as_int|<Felt as StarkField>::as_int"), n_as_int),
    (R(r"Felt::new"), n_felt_new),
    (R(r"<Felt as From<(u8|u16|u32|bool|ContextId|system::ContextId)>>::from"), n_felt_from),
    (R(r"<Felt as (?:std::ops::)?Add>::add"), n_felt_bin("add")),
    (R(r"<Felt as (?:std::ops::)?Sub>::sub"), n_felt_bin("sub")),
    (R(r"<Felt as (?:std::ops::)?Mul>::mul"), n_felt_bin("mul")),
    (R(r"<Felt as (?:std::ops::)?Div>::div"), n_felt_bin("div")),
    (R(r"<Felt as (?:std::ops::)?AddAssign>::add_assign"), n_felt_assign("add")),
    (R(r"<Felt as (?:std::ops::)?SubAssign>::sub_assign"), n_felt_assign("sub")),
    (R(r"<Felt as (?:std::ops::)?MulAssign>::mul_assign"), n_felt_assign("mul")),
    (R(r"<Felt as (?:std::ops::)?Neg>::neg"), n_felt_neg),
    (R(r"<Felt as FieldElement>::inv"), n_felt_inv),
    (R(r"<Felt as FieldElement>::square"), n_felt_square),
    (R(r"<Felt as FieldElement>::double"), n_felt_double),
    (R(r"<Felt as PartialEq>::eq"), n_felt_eq(False)),
    (R(r"<Felt as PartialEq>::ne"), n_felt_eq(True)),
    (R(r"<Felt as TryFrom<u64>>::try_from"), n_try_from_u64_felt),
    (R(r"Decoder::set_user_op_helpers"), n_log("decoder", "set_user_op_helpers")),
    (R(r"RangeChecker::add_range_checks"), n_log("range", "add_range_checks")),
    (R(r"<Result<.*> as Try>::branch|<Option<.*> as Try>::branch"), n_try_branch),
    (R(r"<Result<.*> as FromResidual<.*>>::from_residual|<Option<.*> as FromResidual<.*>>::from_residual"), n_from_residual),
    (R(r"core::num::<impl u(?:8|16|32|64|size)>::wrapping_(add|sub|mul)"), lambda i, a, d, m: n_wrapping(m.group(1))(i, a, d, m)),
    (R(r"core::num::<impl u(?:8|16|32|64|size)>::overflowing_(add|sub|mul)"), lambda i, a, d, m: n_overflowing(m.group(1))(i, a, d, m)),
    (R(r"core::num::<impl u(?:8|16|32|64|size)>::checked_(add|sub|mul|div|rem)"), lambda i, a, d, m: n_checked(m.group(1))(i, a, d, m)),
    (R(r"(?:std|core)::panicking::\w+(?:::<.*>)?|panic_fmt|panic|core::panicking::assert_failed::<.*>"), n_panic),
    (R(r"Option::<.*>::expect|Result::<.*>::expect|Option::<.*>::unwrap|Result::<.*>::unwrap"), n_option_expect),
    (R(r"<(?:std::ops::)?Range<usize> as IntoIterator>::into_iter"), n_identity),
    (R(r"<(?:std::ops::)?Range<usize> as Iterator>::next"), n_range_next),
    (R(r"RefCell::<H>::borrow_mut|RefCell::<H>::borrow"), n_identity),
    (R(r"<RefMut<'_, H> as DerefMut>::deref_mut|<Ref<'_, H> as Deref>::deref|<RefMut<'_, H> as Deref>::deref"), n_identity),
    (R(r"<H as Host>::pop_adv_stack::<Process<H>>"), n_fresh_felt_result(1)),
    (R(r"<H as Host>::pop_adv_stack_word::<Process<H>>"), n_fresh_felt_result(4)),
    (R(r"<H as Host>::pop_adv_stack_dword::<Process<H>>"), n_fresh_felt_result(8)),
    (R(r"<H as Host>::on_assert_failed::<Process<H>>"), n_on_assert_failed),
    (R(r"core::num::<impl u(?:8|16|32|64|size)>::pow"), n_pow),
    (R(r"Chiplets::read_mem"), n_chiplets("word")),
    (R(r"Chiplets::read_mem_double"), n_chiplets("dword")),
    (R(r"Chiplets::write_mem|Chiplets::write_mem_double"), n_chiplets("unit")),
    (R(r"Chiplets::write_mem_element"), n_chiplets("word")),
    (R(r"Chiplets::u32and"), n_chiplets_bitwise("and")),
    (R(r"Chiplets::u32xor"), n_chiplets_bitwise("xor")),
    (R(r"Arguments::<'_>::\w+(?:::<.*>)?|core::fmt::rt::.*|Argument::<'_>::\w+(?:::<.*>)?"), n_opaque),
    (R(r"<(?:system::)?ContextId as From<u32>>::from|<u32 as Into<(?:system::)?ContextId>>::into"), lambda i, a, d, m: _ctxid(a[0])),
    (R(r"(?:core::hint::|std::hint::)?must_use::<.*>"), n_identity),
    (R(r"<.* as Into<.*>>::into|<.* as From<.*>>::from"), n_identity),
]


def base_consts(repo):
    return {
        "miden_core::ONE": F(Lin({}, 1)),
        "miden_core::ZERO": F(Lin({}, 0)),
        "ONE": F(Lin({}, 1)),
        "miden_crypto::ZERO": F(Lin({}, 0)),
        "miden_crypto::ONE": F(Lin({}, 1)),
        "ZERO": F(Lin({}, 0)),
        "miden_core::code_blocks::Split::DOMAIN": Opaque("Split::DOMAIN"),
        "miden_core::code_blocks::Loop::DOMAIN": Opaque("Loop::DOMAIN"),
        "miden_core::code_blocks::Join::DOMAIN": Opaque("Join::DOMAIN"),
        "miden_core::code_blocks::Call::CALL_DOMAIN": Opaque("Call::CALL_DOMAIN"),
        "miden_core::code_blocks::Call::SYSCALL_DOMAIN": Opaque("Call::SYSCALL_DOMAIN"),
        "miden_core::code_blocks::Dyn::DOMAIN": Opaque("Dyn::DOMAIN"),
        "miden_core::EMPTY_WORD": [F(Lin({}, 0)) for _ in range(4)],
        "miden_core::stack::STACK_TOP_SIZE": I(16, "usize"),
        "STACK_TOP_SIZE": I(16, "usize"),
        "core::num::<impl u32>::MAX": I(2**32 - 1, "u32"),
        "core::num::<impl u64>::MAX": I(2**64 - 1, "u64"),
        "core::num::<impl u16>::MAX": I(2**16 - 1, "u16"),
        "enum_variants": {
            "Operation": enum_variants(os.path.join(repo, "core/src/operations/mod.rs"), "Operation"),
            "ExecutionError": enum_variants(os.path.join(repo, "processor/src/errors.rs"), "ExecutionError"),
        },
    }
