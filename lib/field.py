"""Encoding of GF(p), p = 2^64 - 2^32 + 1, for the SMT queries (DESIGN 2.1).

Elements are z3 Ints in [0,p).  Linear arithmetic (add/sub/neg/scale by a constant) is kept exact
in *linear forms* over atoms; a linear form is reduced mod p only where a value is needed
(arguments of products, equalities).  Products of two non-constant values are applications of the
uninterpreted function fmul with ground-instantiated field axioms (listed in AXIOMS).
"""
import z3

P = 2**64 - 2**32 + 1
HALF = P // 2

AXIOMS = [
    "fmul closed on [0,p)",
    "fmul commutative",
    "fmul(x,y)=0 <=> x=0 or y=0 (no zero divisors)",
    "fmul(1,y)=y, fmul(x,1)=x",
    "fmul(x,y)=1 => y=finv(x) and x=finv(y) (uniqueness of inverses)",
    "x!=0 => fmul(x,finv(x))=1",
    "fmul(p-1,y) = -y",
    "cancellation: fmul(x,y)=x => x=0 or y=1",
    "associativity/commutativity of fmul on pure monomials (products of atoms are kept in a sorted normal form)",
    "ground distributivity of fmul over the linear forms of its arguments (<= 16 cross terms)",
    "|x|,|y| < 2^32 (symmetric representatives) => fmul(x,y) = sign * M with M = |x||y| an integer <= (2^32-1)^2 < p, M <= (2^32-1)|x|, M <= (2^32-1)|y|, |y|>=1 => M >= |x|, |x|>=1 => M >= |y| [u32 queries only]",
]


def sym(c):
    """symmetric representative of c mod p in (-p/2, p/2]"""
    c %= P
    return c - P if c > HALF else c


class Lin:
    __slots__ = ("terms", "const")

    def __init__(self, terms=None, const=0):
        self.terms = {k: v for k, v in (terms or {}).items() if v % P != 0}
        self.const = const % P

    def is_const(self):
        return not self.terms

    def subst_consts(self, env):
        """replace atoms by constants (only when the atom occurs as a plain variable term)"""
        terms = dict(self.terms)
        const = self.const
        for k in list(terms):
            if k in env:
                const = (const + terms[k] * env[k]) % P
                del terms[k]
        return Lin(terms, const)

    def key(self):
        return (tuple(sorted((str(k), v % P) for k, v in self.terms.items())), self.const)

    def __add__(self, o):
        o = lin(o)
        t = dict(self.terms)
        for k, v in o.terms.items():
            t[k] = (t.get(k, 0) + v) % P
        return Lin(t, self.const + o.const)

    __radd__ = __add__

    def __neg__(self):
        return Lin({k: (-v) % P for k, v in self.terms.items()}, -self.const)

    def __sub__(self, o):
        return self + (-lin(o))

    def __rsub__(self, o):
        return lin(o) - self

    def scale(self, c):
        c %= P
        return Lin({k: (v * c) % P for k, v in self.terms.items()}, self.const * c)

    def __repr__(self):
        parts = [f"{sym(v)}*{k}" for k, v in self.terms.items()]
        if self.const or not parts:
            parts.append(str(sym(self.const)))
        return " + ".join(parts)


def lin(x):
    if isinstance(x, Lin):
        return x
    if isinstance(x, int):
        return Lin({}, x)
    raise TypeError(x)


class FieldCtx:
    """Owns the z3 solver side of one query: atoms, reductions, fmul instances and their axioms."""

    def __init__(self, u32_axiom=False, nia=False):
        self.nia = nia
        self.fmul = z3.Function("fmul", z3.IntSort(), z3.IntSort(), z3.IntSort())
        self.finv = z3.Function("finv", z3.IntSort(), z3.IntSort())
        self.imul = z3.Function("imul", z3.IntSort(), z3.IntSort(), z3.IntSort())
        self.atoms = {}  # name -> z3 Int
        self.bounds = {}  # name -> upper bound (inclusive)
        self.side = []  # side constraints (ranges, reductions, axioms)
        self.values = {}  # Lin.key() -> z3 Int expr in [0,p)
        self.mul_inst = {}  # (ida, idb) -> atom name
        self.nfresh = 0
        self.u32_axiom = u32_axiom
        self.axioms_used = set()
        self.expand_limit = 16
        self.const_mul = []  # constants c for which fmul(x, c) = c*x is instantiated
        self.exact_int = []  # exact definitions of integer UFs (imul, band, quotients) for concrete validation runs
        self.mono = {}  # monomial atom name -> {base atom: exponent}
        self.mono_names = {}  # canonical monomial key -> atom name
        self.red_defs = []  # (v, q, Lin): v = lin mod p, q = (lin - v) / p  (functional definitions)
        self.defs = {}  # atom name -> ('mul', Lin, Lin) | ('inv', Lin)  (for concrete re-evaluation)

    # ---- atoms --------------------------------------------------------------------------------
    def var(self, name, ub=P - 1):
        if name not in self.atoms:
            v = z3.Int(name)
            self.atoms[name] = v
            self.bounds[name] = ub
            self.side.append(z3.And(v >= 0, v <= ub))
        elif ub < self.bounds[name]:
            self.bounds[name] = ub
            self.side.append(self.atoms[name] <= ub)
        return Lin({name: 1})

    def fresh(self, prefix):
        self.nfresh += 1
        return f"{prefix}!{self.nfresh}"

    # ---- linear forms -> z3 ---------------------------------------------------------------------
    def int_expr(self, l):
        """integer (unreduced) z3 expression of a linear form using symmetric coefficients, and
        (lo, hi) integer bounds of it."""
        e = z3.IntVal(sym(l.const))
        lo = hi = sym(l.const)
        for k, c in l.terms.items():
            c = sym(c)
            e = e + c * self.atoms[k]
            ub = self.bounds[k]
            if c > 0:
                hi += c * ub
            else:
                lo += c * ub
        return e, lo, hi

    def value(self, l):
        """z3 Int in [0,p) equal to the linear form mod p"""
        l = lin(l)
        if l.is_const():
            return z3.IntVal(l.const)
        if len(l.terms) == 1 and l.const == 0:
            (k, c), = l.terms.items()
            if c == 1:
                return self.atoms[k]
        key = l.key()
        if key in self.values:
            return self.values[key]
        e, lo, hi = self.int_expr(l)
        if lo >= 0 and hi < P:
            self.values[key] = e
            return e
        name = self.fresh("v")
        v = z3.Int(name)
        q = z3.Int(self.fresh("q"))
        # e = v + q*p, 0 <= v < p  ==> floor(lo/p) <= q <= floor(hi/p)
        self.side.append(z3.And(v >= 0, v < P, e == v + q * P, q >= lo // P, q <= hi // P))
        self.values[key] = v
        self.red_defs.append((v, q, l))
        return v

    def lin_of_value(self, e):
        """the linear form whose canonical value is the z3 constant e (atom or reduction variable)"""
        if not z3.is_const(e) or e.decl().kind() != z3.Z3_OP_UNINTERPRETED:
            return None
        name = e.decl().name()
        if name in self.atoms:
            return Lin({name: 1})
        for v, q, l in self.red_defs:
            if v.decl().name() == name:
                return l
        return None

    def is_zero(self, l):
        """z3 Bool: linear form == 0 (mod p)"""
        l = lin(l)
        if l.is_const():
            return z3.BoolVal(l.const == 0)
        e, lo, hi = self.int_expr(l)
        if lo > -P and hi < P:
            return e == 0 if (lo <= 0 <= hi) else z3.BoolVal(False)
        if lo >= 0 and hi < 2 * P:
            return z3.Or(e == 0, e == P)
        # polarity-safe: value() introduces a *functional* definition (unique v, q for every e),
        # so the returned atom may be used under negation
        return self.value(l) == 0

    def eq(self, a, b):
        return self.is_zero(lin(a) - lin(b))

    # ---- products -------------------------------------------------------------------------------
    def mul(self, a, b):
        a, b = lin(a), lin(b)
        if a.is_const():
            return b.scale(a.const)
        if b.is_const():
            return a.scale(b.const)
        # pure monomials (single atom, no constant part): associative-commutative normal form, so
        # that (x*x)*(x*x), x*(x*(x*x)) ... are the same atom
        ma, mb = self._as_mono(a), self._as_mono(b)
        if ma is not None and mb is not None:
            (ca, na), (cb, nb) = ma, mb
            merged = dict(self.mono.get(na, {na: 1}))
            for k, e in self.mono.get(nb, {nb: 1}).items():
                merged[k] = merged.get(k, 0) + e
            key = tuple(sorted(merged.items()))
            name = self.mono_names.get(key)
            res_atom = self._mul_atoms(Lin({na: 1}), Lin({nb: 1}), forced_name=name, mono=(key, merged))
            return res_atom.scale(ca * cb)
        return self._mul_atoms(a, b)

    def _as_mono(self, l):
        if l.const == 0 and len(l.terms) == 1:
            (k, c), = l.terms.items()
            return c, k
        return None

    def _mul_atoms(self, a, b, forced_name=None, mono=None):
        ka, kb = a.key(), b.key()
        if (kb, ka) in self.mul_inst:
            return Lin({self.mul_inst[(kb, ka)]: 1})
        if (ka, kb) in self.mul_inst:
            return Lin({self.mul_inst[(ka, kb)]: 1})
        va, vb = self.value(a), self.value(b)
        new_atom = forced_name is None
        name = forced_name or self.fresh("m")
        r = self.atoms[name] if not new_atom else z3.Int(name)
        self.atoms[name] = r
        if mono is not None and new_atom:
            self.mono_names[mono[0]] = name
            self.mono[name] = mono[1]
        ub = P - 1
        if self.u32_axiom:
            # integer product of two u32 values: bounded by (2^32-1)^2 (< p, so no wrap-around)
            # products of two "small signed" values (|x| < 2^32 in the symmetric representation) are
            # exact integers: r = +-M with M = |x|*|y| <= (2^32-1)^2 < p, and M obeys the linear
            # envelope of an integer product whose factors are below 2^32
            M = z3.Int(self.fresh("M"))
            aa = z3.If(va <= HALF, va, P - va)
            ab = z3.If(vb <= HALF, vb, P - vb)
            neg = z3.Xor(va > HALF, vb > HALF)
            U = 2**32 - 1
            self.side.append(z3.And(M >= 0, M <= U * U))
            # plain u32 operands (the common case): the field product is the integer product
            self.side.append(z3.Implies(z3.And(va <= U, vb <= U), z3.And(r == M, r == self.imul(va, vb))))
            self.side.append(z3.Implies(z3.And(aa <= U, ab <= U), z3.And(
                (M == 0) == z3.Or(aa == 0, ab == 0),
                M <= U * aa, M <= U * ab,
                z3.Implies(ab >= 1, M >= aa), z3.Implies(aa >= 1, M >= ab),
                z3.Implies(aa == 1, M == ab), z3.Implies(ab == 1, M == aa),
                r == z3.If(M == 0, 0, z3.If(neg, P - M, M)),
                # the same integer product as the machine-integer multiplication of Engine C
                M == self.imul(aa, ab), self.imul(aa, ab) == self.imul(ab, aa))))
            self.axioms_used.add(9)
        if self.nia:
            # exact (non-linear integer) definition; used only for queries whose argument needs
            # the order structure of small integer products
            qn = z3.Int(self.fresh("qn"))
            self.side.append(z3.And(va * vb == r + qn * P, qn >= 0, qn < P))
        self.bounds[name] = ub
        self.mul_inst[(ka, kb)] = name
        if new_atom:
            self.defs[name] = ("mul", a, b)
        f = self.fmul
        self.side += [
            r == f(va, vb),
            f(va, vb) == f(vb, va),
            r >= 0,
            r <= ub,
            z3.Or(va == 0, vb == 0) == (r == 0),
            z3.Implies(va == 1, r == vb),
            z3.Implies(vb == 1, r == va),
            z3.Implies(r == 1, z3.And(vb == self.finv(va), va == self.finv(vb))),
            z3.Implies(va == P - 1, r == z3.If(vb == 0, 0, P - vb)),
            z3.Implies(vb == P - 1, r == z3.If(va == 0, 0, P - va)),
            # cancellation: x*y = x => x = 0 or y = 1 (and symmetrically); covers idempotents x*x = x
            z3.Implies(r == va, z3.Or(va == 0, vb == 1)),
            z3.Implies(r == vb, z3.Or(vb == 0, va == 1)),
        ]
        self.axioms_used.update([0, 1, 2, 3, 4, 6, 7])
        # products with one of the listed constants are linear (used for square-and-multiply chains
        # whose squarings are constants and whose selector bits are symbolic)
        for cst in self.const_mul:
            self.side.append(z3.Implies(vb == cst, r == self.value(a.scale(cst))))
            self.side.append(z3.Implies(va == cst, r == self.value(b.scale(cst))))
        res = Lin({name: 1})
        # ground distributivity: (sum a_i x_i + a0)(sum b_j y_j + b0) = sum a_i b_j x_i y_j + ...
        na, nb = len(a.terms) + (a.const != 0), len(b.terms) + (b.const != 0)
        simple_a = na == 1 and a.const == 0 and list(a.terms.values())[0] == 1
        simple_b = nb == 1 and b.const == 0 and list(b.terms.values())[0] == 1
        if not (simple_a and simple_b) and na * nb <= self.expand_limit:
            exp = Lin({}, a.const * b.const)
            for ka_, ca in a.terms.items():
                exp = exp + Lin({ka_: 1}).scale(ca * b.const)
                for kb_, cb in b.terms.items():
                    exp = exp + self.mul(Lin({ka_: 1}), Lin({kb_: 1})).scale(ca * cb)
            for kb_, cb in b.terms.items():
                exp = exp + Lin({kb_: 1}).scale(cb * a.const)
            self.side.append(self.is_zero(res - exp))
            self.axioms_used.add(8)
        return res

    def inv(self, a):
        a = lin(a)
        if a.is_const():
            return Lin({}, pow(a.const, P - 2, P))
        va = self.value(a)
        name = self.fresh("i")
        r = z3.Int(name)
        self.atoms[name] = r
        self.bounds[name] = P - 1
        self.defs[name] = ("inv", a)
        self.side += [r == self.finv(va), r >= 0, r < P]
        res = Lin({name: 1})
        # x != 0 => x * inv(x) = 1
        prod = self.mul(a, res)
        self.side.append(z3.Implies(va != 0, self.value(prod) == 1))
        self.side.append(z3.Implies(va == 0, r == 0))
        self.axioms_used.add(5)
        return res

    # ---- concrete evaluation (for replay / refinement) -------------------------------------------
    def int_value(self, l, env):
        """integer (unreduced, symmetric coefficients) value of a linear form"""
        t = sym(l.const)
        for k, c in l.terms.items():
            t += sym(c) * self.eval_atom(k, env)
        return t

    def substitution(self, env):
        """list of (z3 const, z3 value) for every atom and every reduction variable, computed with
        REAL field arithmetic from the values of the base atoms in env"""
        pairs = list(getattr(env, "extra", ()))
        env = dict(env)
        for name, v in self.atoms.items():
            pairs.append((v, z3.IntVal(self.eval_atom(name, env))))
        for v, q, l in self.red_defs:
            e = self.int_value(l, env)
            pairs.append((v, z3.IntVal(e % P)))
            pairs.append((q, z3.IntVal((e - e % P) // P)))
        return pairs

    def holds(self, b, env):
        """truth value of a z3 Bool over atoms / reduction variables under real arithmetic"""
        r = z3.simplify(z3.substitute(b, *self.substitution(env)))
        if z3.is_true(r):
            return True
        if z3.is_false(r):
            return False
        raise ValueError(f"cannot evaluate concretely: {r}")

    def eval_lin(self, l, env):
        """evaluate a linear form with REAL field arithmetic given env: base atom name -> int"""
        l = lin(l)
        t = l.const
        for k, c in l.terms.items():
            t += c * self.eval_atom(k, env)
        return t % P

    def eval_atom(self, k, env):
        if k in env:
            return env[k]
        if k not in self.defs:
            env[k] = 0
            return 0
        d = self.defs[k]
        if d[0] == "mul":
            v = self.eval_lin(d[1], env) * self.eval_lin(d[2], env) % P
        else:
            x = self.eval_lin(d[1], env)
            v = pow(x, P - 2, P)
        env[k] = v
        return v


def load_dag(ctx, arena, roots, varmap=None, bounds=None):
    """Turn an airsym arena + list of root handles into linear forms in ctx.
    varmap: optional dict name -> Lin to substitute for variables (e.g. constants)."""
    memo = {}
    bounds = bounds or {}

    def h(x):
        if "c" in x:
            return Lin({}, int(x["c"]))
        return node(x["n"])

    def node(i):
        # iterative to avoid deep recursion
        stack = [i]
        while stack:
            j = stack[-1]
            if j in memo:
                stack.pop()
                continue
            n = arena[j]
            op = n[0]
            if op == "var":
                name = n[1]
                if varmap and name in varmap:
                    memo[j] = lin(varmap[name])
                else:
                    memo[j] = ctx.var(name, bounds.get(name, P - 1))
                stack.pop()
                continue
            deps = [a["n"] for a in n[1:] if "n" in a and a["n"] not in memo]
            if deps:
                stack.extend(deps)
                continue
            args = [Lin({}, int(a["c"])) if "c" in a else memo[a["n"]] for a in n[1:]]
            if op == "add":
                memo[j] = args[0] + args[1]
            elif op == "sub":
                memo[j] = args[0] - args[1]
            elif op == "mul":
                memo[j] = ctx.mul(args[0], args[1])
            elif op == "neg":
                memo[j] = -args[0]
            elif op == "inv":
                memo[j] = ctx.inv(args[0])
            else:
                raise ValueError(op)
            stack.pop()
        return memo[i]

    return [h(r) for r in roots]


def eval_dag(arena, roots, env):
    """evaluate an airsym DAG with real field arithmetic; env: var name -> int"""
    memo = {}

    def val(x):
        if "c" in x:
            return int(x["c"])
        return memo[x["n"]]

    for j, n in enumerate(arena):
        op = n[0]
        if op == "var":
            memo[j] = env.get(n[1], 0) % P
        elif op == "add":
            memo[j] = (val(n[1]) + val(n[2])) % P
        elif op == "sub":
            memo[j] = (val(n[1]) - val(n[2])) % P
        elif op == "mul":
            memo[j] = (val(n[1]) * val(n[2])) % P
        elif op == "neg":
            memo[j] = (-val(n[1])) % P
        elif op == "inv":
            memo[j] = pow(val(n[1]), P - 2, P)
    return [val(r) for r in roots]
