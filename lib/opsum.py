"""Per-operation summaries of the real processor: run `Process::execute_op` (MIR) on a symbolic
state and collect every path (path condition, outcome, next row, helper registers, events)."""
import os
import re
import time

import z3

import mir_parse as mp
import mirsym
import procmodel as pm
from common import REPO, WORK, log, run
from field import P, Lin
from mirsym import En, F, I, Struct, UNIT

_FNS = {}


def dump_mir(crate, features=None):
    """MIR of /repo/<crate> from the current working tree (release semantics: debug assertions off,
    overflow checks on so that arithmetic overflow is an explicit assert terminator)"""
    out = os.path.join(WORK, "mir", f"{crate}.mir")
    os.makedirs(os.path.dirname(out), exist_ok=True)
    src_dir = os.path.join(REPO, crate)
    # cargo skips the rustc invocation when nothing changed; force it by touching lib.rs's mtime
    # in a way that does not modify the file content
    os.utime(os.path.join(src_dir, "src", "lib.rs"))
    cmd = ["cargo", "+nightly", "rustc", "--offline", "--lib"]
    if features:
        cmd += ["--features", features]
    cmd += ["--", "-Zunpretty=mir", "-C", "debug-assertions=off", "-C", "overflow-checks=on"]
    t0 = time.time()
    p = run(cmd, cwd=src_dir, env={"CARGO_TARGET_DIR": os.path.join(WORK, "target", "mir")}, check=False, capture=True)
    # stdout and stderr are mixed by run(); MIR items start at column 0 with fn/const/static
    text = p.stdout
    if p.returncode != 0 or "\nfn " not in text:
        log(text[-3000:])
        raise RuntimeError(f"MIR dump of {crate} failed")
    with open(out, "w") as f:
        f.write(text)
    log(f"[mir] {crate}: {len(text.splitlines())} lines in {time.time()-t0:.1f}s")
    return out


def load_fns(crate="processor", features="internals", refresh=True):
    key = crate
    if key not in _FNS:
        path = os.path.join(WORK, "mir", f"{crate}.mir")
        if refresh or not os.path.exists(path):
            path = dump_mir(crate, features)
        _FNS[key] = mp.parse_functions(open(path).read())
    return _FNS[key]


def struct_fields(path, name):
    src = open(path).read()
    m = re.search(r"(?:pub(?:\([^)]*\))? )?struct %s\s*(?:<[^>]*>)?\s*(?:where[^{]*)?\{" % re.escape(name), src)
    if not m:
        raise mp.Unsupported(f"struct {name} not found in {path}")
    i = m.end()
    depth = 1
    body = []
    while depth:
        ch = src[i]
        if ch == "{":
            depth += 1
        elif ch == "}":
            depth -= 1
        body.append(ch)
        i += 1
    body = re.sub(r"//[^\n]*", "", "".join(body[:-1]))
    body = re.sub(r"#\[[^\]]*\]", "", body)
    names = []
    depth = 0
    cur = []
    for ch in body:
        if ch in "(<[":
            depth += 1
        elif ch in ")>]":
            depth -= 1
        if ch == "," and depth == 0:
            names.append("".join(cur).strip())
            cur = []
        else:
            cur.append(ch)
    if "".join(cur).strip():
        names.append("".join(cur).strip())
    return [re.sub(r"^pub(\([^)]*\))?\s+", "", n).split(":")[0].strip() for n in names if n]


class TraceSink:
    """a trace column: writes are accepted and dropped (the bounds are C14's obligation)"""

    def __init__(self, name):
        self.name = name
        self.writes = []

    def index_box(self, interp, i):
        return _SinkBox(self, i), 0

    def __len__(self):
        raise mp.Unsupported("length of a trace column")


class _SinkBox:
    def __init__(self, sink, i):
        self.sink, self.i = sink, i

    def __getitem__(self, k):
        raise mp.Unsupported(f"read of trace column {self.sink.name}")

    def __setitem__(self, k, v):
        self.sink.writes.append((self.i, v))


class SystemStruct(Struct):
    """System as a real struct interpreted from MIR: scalar state fields + write-only trace columns"""

    def __init__(self, clk, ctx, fmp, in_syscall, fn_hash):
        super().__init__()
        names = struct_fields(os.path.join(REPO, "processor/src/system/mod.rs"), "System")
        vals = {"clk": clk, "ctx": ctx, "fmp": fmp, "in_syscall": in_syscall, "fn_hash": fn_hash}
        for i, n in enumerate(names):
            if n in vals:
                self[i] = vals[n]
            elif n == "fn_hash_trace":
                self[i] = [TraceSink(f"{n}[{j}]") for j in range(4)]
            else:
                self[i] = TraceSink(n)
        self.names = names

    def by_name(self, n):
        return self[self.names.index(n)]

    def clk_felt(self, interp):
        c = self.by_name("clk")
        if isinstance(c.v, int):
            return F(Lin({}, c.v))
        return pm.felt_from_int(interp, c)

    @property
    def clk(self):
        return self.by_name("clk")


def context_id(v):
    s = Struct()
    s[0] = v
    return s


def n_vec_index_mut(interp, args, dty, m):
    v = pm.deref(args[0])
    idx = args[1]
    i = idx.v if isinstance(idx, I) else idx
    if isinstance(v, TraceSink):
        b, k = v.index_box(interp, i)
        return mirsym.Ref(b, k)
    if isinstance(v, list):
        if mirsym.is_sym(i):
            raise mp.Unsupported("symbolic Vec index")
        if i >= len(v):
            raise mirsym.Panic(f"index out of bounds: {i} >= {len(v)}")
        return mirsym.Ref(v, i)
    raise mp.Unsupported(f"index into {v!r}")


EXTRA_NATIVES = [
    (re.compile(r"<(?:std::vec::)?Vec<.*> as (?:std::ops::)?Index(?:Mut)?<usize>>::index(?:_mut)?|<\[.*\] as (?:std::ops::)?Index(?:Mut)?<usize>>::index(?:_mut)?"), n_vec_index_mut),
    (re.compile(r"Chiplets::advance_clock"), pm.n_unit),
    (re.compile(r"Stack::advance_clock"), lambda i, a, d, m: stack_advance(i, a)),
    (re.compile(r"Stack::ensure_trace_capacity|system::System::ensure_trace_capacity|System::ensure_trace_capacity"),
     lambda i, a, d, m: (i.events.append(("capacity", m.group(0))), UNIT)[1]),
]


def _late_natives():
    import rustlib
    def n_reverse(it, a, d, m):
        x = pm.deref(a[0])
        if isinstance(x, list):
            x.reverse()
        else:
            r = a[0]
            while isinstance(r.get(), mirsym.Ref):
                r = r.get()
            r.set(list(reversed(x)))
        return UNIT
    extra = [(re.compile(r"core::slice::<impl \[.*\]>::reverse"), n_reverse)]
    return extra + rustlib.NATIVES


def stack_advance(interp, args):
    """Stack::advance_clock: the row written for clk+1 becomes the current row"""
    s = pm.deref(args[0])
    s.advanced = True
    interp.events.append(("stack", "advance_clock"))
    if not getattr(s, "multi_step", False):
        return UNIT
    if any(x is None for x in s.next):
        raise mp.Unsupported("advance_clock with unwritten stack positions")
    s.history.append(list(s.top))
    s.top = list(s.next)
    s.next = [None] * 16
    return UNIT


class ProcModel2(pm.ProcessModel):
    pass


def make_state(interp, meta_cols, overflow_items=0, sym_prefix="c"):
    """symbolic processor state named like the AIR's current-row cells (c<col>)"""
    ctx = interp.ctx
    st = meta_cols["STACK"]
    top = [F(ctx.var(f"{sym_prefix}{st+i}")) for i in range(16)]
    ovf = []
    prev = F(Lin({}, 0))
    for j in range(overflow_items):
        val = F(ctx.var(f"ov{j}"))
        clk = F(ctx.var(f"ovclk{j}"))
        # rows of the overflow table have non-zero addresses (no shift right happens at clk = 0)
        interp.assume(ctx.value(clk.l) != 0)
        ovf.append((val, clk, prev))
        prev = clk
    stack = pm.StackModel(top, ovf, prev)
    clk = I(z3.Int("clk"), "u32")
    interp.assume(z3.And(clk.v >= 0, clk.v < 2**32 - 1))
    fmp = F(ctx.var(f"{sym_prefix}{meta_cols['FMP']}"))
    ctxid = I(z3.Int("ctxid"), "u32")
    interp.assume(z3.And(ctxid.v >= 0, ctxid.v < 2**32))
    system = SystemStruct(clk, context_id(ctxid), fmp, z3.Bool("in_syscall"),
                          [F(ctx.var(f"fnh{i}")) for i in range(4)])
    maxc = I(z3.Int("max_cycles"), "u32")
    interp.assume(z3.And(maxc.v >= 0, maxc.v < 2**32))
    proc = ProcModel2(stack, system, maxc)
    return proc


def operation_value(interp, name):
    ctx = interp.ctx
    if name == "Push":
        return En("Push", [F(ctx.var("imm"))], ty="miden_core::Operation")
    if name == "Assert":
        ec = I(z3.Int("err_code"), "u32")
        interp.assume(z3.And(ec.v >= 0, ec.v < 2**32))
        return En("Assert", [ec], ty="miden_core::Operation")
    if name == "U32assert2":
        return En("U32assert2", [F(ctx.var("err_code_f"))], ty="miden_core::Operation")
    return En(name, [], ty="miden_core::Operation")


def make_interp(max_paths=256):
    fns = load_fns()
    consts = pm.base_consts(REPO)
    # generic library natives come last: the specific models above take precedence
    return mirsym.Interp(fns, EXTRA_NATIVES + pm.NATIVES + _late_natives(), consts, max_paths=max_paths)


def summarize_op(interp, meta_cols, op_name, overflow_items=0):
    """all paths of Process::execute_op(op) from an arbitrary state with `overflow_items` items
    below the top 16"""
    def make_run(it):
        proc = make_state(it, meta_cols, overflow_items)
        it.begin_run(proc)
        op = operation_value(it, op_name)
        box = {"p": proc}
        ref = mirsym.Ref(box, "p")
        return lambda: it.call("operations::<impl Process<H>>::execute_op", [ref, op])
    return interp.explore(make_run)
