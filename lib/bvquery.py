"""Bit-vector back end for integer queries: translates a quantifier-free z3 Int/Bool formula whose
integer variables all carry explicit bounds into fixed-width signed bit-vector arithmetic (width
chosen so that no intermediate term can wrap; checked by interval arithmetic during translation).
Division / remainder are supported for positive power-of-two divisors (floor semantics = arithmetic
shift / mask), multiplication when one factor is a constant.  Uninterpreted Int functions become
uninterpreted bit-vector functions.  A query that does not fit the fragment is refused (None)."""
import z3


class Refuse(Exception):
    pass


def collect_bounds(assertions):
    """var name -> [lo, hi] from top-level conjuncts of the form x >= c, x <= c, x < c, x > c, x == c"""
    b = {}

    def visit(e):
        if z3.is_and(e):
            for ch in e.children():
                visit(ch)
            return
        if z3.is_app(e) and e.num_args() == 2:
            k = e.decl().kind()
            l, r = e.arg(0), e.arg(1)
            if z3.is_const(l) and l.decl().kind() == z3.Z3_OP_UNINTERPRETED and z3.is_int_value(r):
                n, c = l.decl().name(), r.as_long()
                lo, hi = b.get(n, [None, None])
                if k == z3.Z3_OP_GE:
                    lo = c if lo is None else max(lo, c)
                elif k == z3.Z3_OP_GT:
                    lo = c + 1 if lo is None else max(lo, c + 1)
                elif k == z3.Z3_OP_LE:
                    hi = c if hi is None else min(hi, c)
                elif k == z3.Z3_OP_LT:
                    hi = c - 1 if hi is None else min(hi, c - 1)
                elif k == z3.Z3_OP_EQ:
                    lo, hi = c, c
                b[n] = [lo, hi]
    for a in assertions:
        visit(a)
    return b


class Translator:
    def __init__(self, bounds, width):
        self.bounds, self.W = bounds, width
        self.memo = {}
        self.vars = {}
        self.funcs = {}
        self.limit = 1 << (width - 3)
        self.extra = []

    def iv(self, lo, hi):
        if lo < -self.limit or hi > self.limit:
            raise Refuse(f"term range [{lo}, {hi}] exceeds the chosen width")
        return lo, hi

    def val(self, c):
        return z3.BitVecVal(c, self.W)

    def t(self, e):
        """returns (bv or bool term, (lo, hi) for ints / None for bools)"""
        key = e.get_id()
        if key in self.memo:
            return self.memo[key]
        r = self._t(e)
        self.memo[key] = r
        return r

    def _t(self, e):
        W = self.W
        if z3.is_int_value(e):
            c = e.as_long()
            return self.val(c), self.iv(c, c)
        if z3.is_true(e) or z3.is_false(e):
            return e, None
        if not z3.is_app(e):
            raise Refuse(f"non-application {e}")
        k = e.decl().kind()
        ch = e.children()
        if k == z3.Z3_OP_UNINTERPRETED:
            name = e.decl().name()
            if e.num_args() == 0:
                if z3.is_bool(e):
                    return e, None
                if not z3.is_int(e):
                    raise Refuse(f"sort of {name}")
                lo, hi = self.bounds.get(name, [None, None])
                if lo is None or hi is None:
                    raise Refuse(f"unbounded integer variable {name}")
                v = self.vars.setdefault(name, z3.BitVec(name, W))
                return v, self.iv(lo, hi)
            # uninterpreted function over ints -> over bit-vectors; result range: declared by its users
            args = [self.t(c)[0] for c in ch]
            f = self.funcs.get(name)
            if f is None:
                f = z3.Function(name + "_bv", *([z3.BitVecSort(W)] * (len(args) + 1)))
                self.funcs[name] = f
            app = f(*args)
            # results of the integer UFs used by the encodings are non-negative and below 2^128
            self.extra.append(z3.And(app >= 0, app <= self.val(1 << 128)))
            return app, self.iv(0, 1 << 128)
        if k == z3.Z3_OP_ADD:
            ts = [self.t(c) for c in ch]
            r = ts[0][0]
            lo, hi = ts[0][1]
            for x, (l2, h2) in ts[1:]:
                r = r + x
                lo, hi = lo + l2, hi + h2
            return r, self.iv(lo, hi)
        if k == z3.Z3_OP_SUB:
            ts = [self.t(c) for c in ch]
            r = ts[0][0]
            lo, hi = ts[0][1]
            for x, (l2, h2) in ts[1:]:
                r = r - x
                lo, hi = lo - h2, hi - l2
            return r, self.iv(lo, hi)
        if k == z3.Z3_OP_UMINUS:
            x, (lo, hi) = self.t(ch[0])
            return -x, self.iv(-hi, -lo)
        if k == z3.Z3_OP_MUL:
            consts = [c for c in ch if z3.is_int_value(c)]
            others = [c for c in ch if not z3.is_int_value(c)]
            c = 1
            for x in consts:
                c *= x.as_long()
            if len(others) == 0:
                return self.val(c), self.iv(c, c)
            if len(others) > 1:
                raise Refuse("product of two non-constant terms")
            x, (lo, hi) = self.t(others[0])
            a, b = sorted((lo * c, hi * c))
            return x * self.val(c), self.iv(a, b)
        if k in (z3.Z3_OP_IDIV, z3.Z3_OP_DIV, z3.Z3_OP_MOD, z3.Z3_OP_REM):
            x, (lo, hi) = self.t(ch[0])
            if not z3.is_int_value(ch[1]):
                raise Refuse("division by a non-constant")
            d = ch[1].as_long()
            if d <= 0 or d & (d - 1):
                raise Refuse(f"divisor {d} is not a positive power of two")
            sh = d.bit_length() - 1
            if k in (z3.Z3_OP_IDIV, z3.Z3_OP_DIV):
                return x >> sh, self.iv(lo >> sh, hi >> sh)  # arithmetic shift = floor division
            return x & self.val(d - 1), self.iv(0, d - 1)
        if k == z3.Z3_OP_ITE:
            c, _ = self.t(ch[0])
            a, ra = self.t(ch[1])
            b, rb = self.t(ch[2])
            if ra is None:
                return z3.If(c, a, b), None
            return z3.If(c, a, b), self.iv(min(ra[0], rb[0]), max(ra[1], rb[1]))
        if k in (z3.Z3_OP_LE, z3.Z3_OP_LT, z3.Z3_OP_GE, z3.Z3_OP_GT):
            a, _ = self.t(ch[0])
            b, _ = self.t(ch[1])
            return {z3.Z3_OP_LE: a <= b, z3.Z3_OP_LT: a < b, z3.Z3_OP_GE: a >= b, z3.Z3_OP_GT: a > b}[k], None
        if k == z3.Z3_OP_EQ:
            a, ra = self.t(ch[0])
            b, rb = self.t(ch[1])
            return a == b, None
        if k == z3.Z3_OP_DISTINCT:
            ts = [self.t(c)[0] for c in ch]
            return z3.Distinct(*ts), None
        if k == z3.Z3_OP_AND:
            return z3.And([self.t(c)[0] for c in ch]), None
        if k == z3.Z3_OP_OR:
            return z3.Or([self.t(c)[0] for c in ch]), None
        if k == z3.Z3_OP_NOT:
            return z3.Not(self.t(ch[0])[0]), None
        if k == z3.Z3_OP_IMPLIES:
            return z3.Implies(self.t(ch[0])[0], self.t(ch[1])[0]), None
        if k == z3.Z3_OP_XOR:
            return z3.Xor(self.t(ch[0])[0], self.t(ch[1])[0]), None
        if k == z3.Z3_OP_IFF:
            return self.t(ch[0])[0] == self.t(ch[1])[0], None
        if k == z3.Z3_OP_BV2INT:
            b = self.bvt(ch[0])
            n = b.size()
            return z3.ZeroExt(W - n, b), self.iv(0, (1 << n) - 1)
        raise Refuse(f"operator {e.decl().name()} ({k})")

    def bvt(self, b):
        """bit-vector subterms of the original query (Int2BV conversions inside)"""
        if z3.is_bv_value(b):
            return b
        k = b.decl().kind()
        ch = b.children()
        if k == z3.Z3_OP_INT2BV:
            x, _ = self.t(ch[0])
            return z3.Extract(b.size() - 1, 0, x)
        args = [self.bvt(c) for c in ch]
        if k == z3.Z3_OP_BAND:
            return args[0] & args[1]
        if k == z3.Z3_OP_BOR:
            return args[0] | args[1]
        if k == z3.Z3_OP_BXOR:
            return args[0] ^ args[1]
        if k == z3.Z3_OP_BNOT:
            return ~args[0]
        if k == z3.Z3_OP_EXTRACT:
            p = b.params()
            return z3.Extract(p[0], p[1], args[0])
        raise Refuse(f"bit-vector operator {b.decl().name()}")


def check_bv(assertions, timeout_ms=60000, width=160):
    """returns ('unsat', None) | ('sat', {int var name: value, bool var name: bool}) | ('unknown', reason)
    The narrowest of the widths 72 / 104 / `width` in which no intermediate term can wrap is used
    (interval analysis during translation refuses a width that is too small)."""
    bounds = collect_bounds(assertions)
    tr = out = None
    last = None
    for w in sorted({x for x in (72, 104, width) if x <= width}):
        try:
            tr = Translator(bounds, w)
            out = [tr.t(a)[0] for a in assertions]
            # variables keep their declared range (signed comparisons on the wide vectors)
            for name, v in tr.vars.items():
                lo, hi = bounds[name]
                out.append(z3.And(v >= tr.val(lo), v <= tr.val(hi)))
            out += tr.extra
            break
        except Refuse as e:
            last = e
            tr = out = None
            if "exceeds the chosen width" not in str(e):
                break
    if out is None:
        return "unknown", f"outside the bit-vector fragment: {last}"
    s = z3.SolverFor("QF_UFBV")
    s.set("timeout", timeout_ms)
    s.add(out)
    r = s.check()
    if r == z3.unsat:
        return "unsat", None
    if r == z3.sat:
        m = s.model()
        env = {}
        for name, v in tr.vars.items():
            x = m.eval(v, model_completion=True).as_signed_long()
            env[name] = x
        return "sat", env
    return "unknown", s.reason_unknown()
