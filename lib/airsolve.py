"""Deciding one obligation `side /\ assume => post` over the field encoding, with
 * counterexample validation under REAL field arithmetic (the uninterpreted fmul may be wrong in a
   model) and lemma-on-demand refinement of spurious models,
 * a self-test of the instantiated axioms against real arithmetic."""
import random

import z3

from field import P

BOUNDARY = [0, 1, 2, 3, 2**16 - 1, 2**16, 2**31, 2**32 - 1, 2**32, 2**32 + 1, P - 1, P - 2, (P + 1) // 2]


def solver_timeout_ms():
    import os
    return os.environ.get("VERIF_BV_TIMEOUT_MS", "120000")


def real_lemmas(ctx, env):
    """for every product atom: (args have the model's values) => result is the real product"""
    out = []
    e = dict(env)
    for name, d in ctx.defs.items():
        if d[0] == "mul":
            x, y = ctx.eval_lin(d[1], e), ctx.eval_lin(d[2], e)
            va, vb = ctx.value(d[1]), ctx.value(d[2])
            out.append(z3.Implies(z3.And(va == x, vb == y), ctx.atoms[name] == (x * y) % P))
        else:
            x = ctx.eval_lin(d[1], e)
            va = ctx.value(d[1])
            out.append(z3.Implies(va == x, ctx.atoms[name] == pow(x, P - 2, P)))
    return out


class Env(dict):
    """values of the base atoms; `.extra` holds (z3 const, value) pairs of non-field constants"""
    extra = ()


def base_env(model, ctx):
    env = Env()
    # free integer / boolean constants that are not field atoms (clk, max_cycles, flags ...)
    extra = []
    for d in model.decls():
        if d.arity() == 0 and d.name() not in ctx.atoms:
            extra.append((d(), model[d]))
    env.extra = extra
    for name, v in ctx.atoms.items():
        if name in ctx.defs:
            continue
        env[name] = model.eval(v, model_completion=True).as_long() % P
    return env


def decide(ctx, solver, assume, post, max_refine=12):
    """solver already contains ctx.side and the assumptions.  Returns
    ('unsat', None) | ('sat', env) with env validated under real arithmetic | ('unknown', why)"""
    solver.push()
    try:
        solver.add(ctx.side)
        solver.add(z3.Not(post))
        before = list(solver.assertions())  # read before check(): z3 may hand back internal skolems (mod!N) afterwards
        r = solver.check()
        if r == z3.unsat:
            return "unsat", None
        if r != z3.sat:
            # second back end: the same assertions in fixed-width bit-vector arithmetic (exact for
            # bounded integers; see lib/bvquery.py).  Only its `unsat` is used as a verdict.
            import bvquery
            st, info = bvquery.check_bv(before, timeout_ms=int(solver_timeout_ms()))
            if st == "unsat":
                return "unsat", None
            return "unknown", f"z3/LIA: {solver.reason_unknown()}; bit-vector back end: {st} {info if st != 'sat' else '(model not used)'}"
        # a model exists over the uninterpreted fmul.  Look first for one in which every product
        # has an operand in {0,1}: there the axioms pin fmul to the real product.
        solver.push()
        for name, d in ctx.defs.items():
            if d[0] == "mul":
                va, vb = ctx.value(d[1]), ctx.value(d[2])
                solver.add(z3.Or(va == 0, va == 1, vb == 0, vb == 1))
            else:
                va = ctx.value(d[1])
                solver.add(z3.Or(va == 0, va == 1))
        solver.add(ctx.side)
        r = solver.check()
        if r == z3.sat:
            env = base_env(solver.model(), ctx)
            try:
                if all(ctx.holds(a, env) for a in assume) and not ctx.holds(post, env):
                    solver.pop()
                    return "sat", env
            except ValueError:
                pass
        solver.pop()
        for _ in range(max_refine):
            r = solver.check()
            if r == z3.unsat:
                return "unsat", None
            if r != z3.sat:
                return "unknown", solver.reason_unknown()
            env = base_env(solver.model(), ctx)
            try:
                ok = all(ctx.holds(a, env) for a in assume) and not ctx.holds(post, env)
            except ValueError as ex:
                return "unknown", f"concrete evaluation failed: {ex}"
            if ok:
                return "sat", env
            solver.add(real_lemmas(ctx, env))
        return "unknown", f"spurious models after {max_refine} refinements"
    finally:
        solver.pop()


def selftest_axioms(ctx, rng, samples=6):
    """every instantiated axiom must be satisfiable with fmul/finv interpreted as the real
    operations: pin base atoms to sample values, derived atoms to their real values."""
    base = [n for n in ctx.atoms if n not in ctx.defs]
    for i in range(samples):
        env = {}
        for n in base:
            ub = ctx.bounds.get(n, P - 1)
            v = rng.choice(BOUNDARY) if rng.random() < 0.6 else rng.randrange(P)
            env[n] = v if v <= ub else rng.randrange(ub + 1)
        s = z3.Solver()
        s.set("timeout", 20000)
        s.add(ctx.side)
        for var, val in ctx.substitution(env):
            s.add(var == val)
        r = s.check()
        if r != z3.sat:
            return False, env
    return True, None
