"""Driver for Engine A: runs the airsym binary (real ProcessorAir over a symbolic field) and wraps
the results for the SMT side."""
import json
import os
import time

from common import WORK, build_engine, log, run

_BIN = None


def airsym_bin():
    global _BIN
    if _BIN is None:
        _BIN = build_engine("airsym")
    return _BIN


def run_jobs(jobs, tag="jobs"):
    os.makedirs(os.path.join(WORK, "airsym"), exist_ok=True)
    jf = os.path.join(WORK, "airsym", f"{tag}.{os.getpid()}.in.json")
    of = os.path.join(WORK, "airsym", f"{tag}.{os.getpid()}.out.json")
    with open(jf, "w") as f:
        json.dump({"jobs": jobs}, f)
    if os.path.exists(of):
        os.remove(of)
    t0 = time.time()
    p = run([airsym_bin(), jf, of], check=False)
    if p.returncode != 0 or not os.path.exists(of):
        log(p.stdout[-3000:])
        raise RuntimeError("airsym failed (a panic here usually means the constraint code branched on a symbolic value)")
    with open(of) as f:
        res = json.load(f)["results"]
    os.remove(jf)
    os.remove(of)
    log(f"[airsym] {len(jobs)} jobs in {time.time()-t0:.2f}s")
    return res


class Meta:
    def __init__(self, m):
        self.raw = m
        self.cols = m["cols"]
        self.ops = {o["name"]: o for o in m["ops"]}
        self.periodic = [[int(x) for x in c] for c in m["periodic"]]
        self.n_main = m["num_main_constraints"]
        self.n_aux = m["num_aux_constraints"]
        self.W = self.cols["TRACE_WIDTH"]

    def opcode_consts(self, opcode):
        """constants for the op-bit cells and the two degree-reduction cells of the current row"""
        c = self.cols
        out = {}
        for b in range(c["NUM_OP_BITS"]):
            out[str(c["OP_BITS"] + b)] = (opcode >> b) & 1
        b6, b5, b4 = (opcode >> 6) & 1, (opcode >> 5) & 1, (opcode >> 4) & 1
        out[str(c["OP_BITS_EXTRA"])] = b6 * (1 - b5) * b4
        out[str(c["OP_BITS_EXTRA"] + 1)] = b6 * b5
        return out


def get_meta():
    return Meta(run_jobs([{"kind": "meta"}], "meta")[0])
