"""Engine D: symbolic execution of assembled Miden-assembly fragments.
The real assembler (replay binary, `assemble` job) turns source into MAST; every VM operation of a
span is executed by interpreting the MIR of the real Process::execute_op (Engine C) over an abstract
stack with symbolic contents; split/loop blocks follow the block semantics established by C06
(condition popped, 1 / 0 select the branch / another iteration, anything else is NotBinaryValue).
The host is adversarial: every advice value is a fresh symbolic field element."""
import json
import os

import z3

import mirsym
import opsum
import procmodel as pm
from common import WORK, build_engine, run
from field import P, Lin
from mir_parse import Unsupported
from mirsym import En, F, I, Ref

_BIN = []


def replay_bin():
    if not _BIN:
        _BIN.append(build_engine("replay", release=True))
    return _BIN[0]


def native(jobs, tag="masm"):
    d = os.path.join(WORK, "replay")
    os.makedirs(d, exist_ok=True)
    jf, of = os.path.join(d, f"{tag}.{os.getpid()}.in.json"), os.path.join(d, f"{tag}.{os.getpid()}.out.json")
    json.dump({"jobs": jobs}, open(jf, "w"))
    run([replay_bin(), jf, of], timeout=900)
    r = json.load(open(of))["results"]
    os.remove(jf)
    os.remove(of)
    return r


def assemble(sources, stdlib=False):
    return native([{"kind": "assemble", "source": s, "stdlib": stdlib} for s in sources], "asm")


# 2^(2^i) mod p: the squarings of 2 that EXPACC-based pow2 sequences multiply into the accumulator
CONST_MUL = [2, 4, 16, 256, 65536, 2**32]


class ExecError(Exception):
    def __init__(self, err):
        self.err = err


def op_value(it, o):
    n = o["name"]
    if n == "Push":
        return En("Push", [F(Lin({}, int(o["imm"]) % P))], ty="miden_core::Operation")
    if n == "Assert":
        return En("Assert", [I(int(o["imm"]), "u32")], ty="miden_core::Operation")
    if n == "U32assert2":
        return En("U32assert2", [F(Lin({}, int(o["imm"]) % P))], ty="miden_core::Operation")
    return En(n, [], ty="miden_core::Operation")


def exec_block(it, ref, proc, blk, loop_bound):
    k = blk["kind"]
    if k == "span":
        for o in blk["ops"]:
            r = it.call("operations::<impl Process<H>>::execute_op", [ref, op_value(it, o)])
            if r.variant == "Err":
                raise ExecError(r.fields[0])
        return
    if k == "join":
        exec_block(it, ref, proc, blk["first"], loop_bound)
        exec_block(it, ref, proc, blk["second"], loop_bound)
        return
    if k == "split":
        cond = it.ctx.value(proc.stack.top[0].l)
        drop(it, ref)
        if it.decide(cond == 1):
            exec_block(it, ref, proc, blk["on_true"], loop_bound)
        elif it.decide(cond == 0):
            exec_block(it, ref, proc, blk["on_false"], loop_bound)
        else:
            raise ExecError(En("NotBinaryValue", [proc.stack.top[0]], ty="ExecutionError"))
        return
    if k == "loop":
        n = 0
        while True:
            cond = it.ctx.value(proc.stack.top[0].l)
            drop(it, ref)
            if it.decide(cond == 1):
                n += 1
                if n > loop_bound:
                    raise mirsym.Panic("loop bound", kind="infeasible")
                exec_block(it, ref, proc, blk["body"], loop_bound)
                continue
            if it.decide(cond == 0):
                return
            raise ExecError(En("NotBinaryValue", [proc.stack.top[0]], ty="ExecutionError"))
    raise Unsupported(f"MAST node {k}")


def drop(it, ref):
    r = it.call("operations::<impl Process<H>>::execute_op", [ref, En("Drop", [], ty="miden_core::Operation")])
    if r.variant == "Err":
        raise ExecError(r.fields[0])


def run_mast(interp, meta, root, overflow_items=2, loop_bound=4, pre=None):
    """all paths of executing `root` from a symbolic stack of depth 16 + overflow_items.
    PathResult.value = ("ok", final top list (F), final overflow list) | ("err", error En)"""
    def make_run(it):
        it.ctx.const_mul = list(CONST_MUL)
        proc = opsum.make_state(it, meta.cols, overflow_items)
        proc.stack.multi_step = True
        it.begin_run(proc)
        # irrelevant forks pinned: not inside a syscall, cycle limit far away
        it.assume(z3.Not(z3.Bool("in_syscall")))
        it.assume(z3.And(z3.Int("clk") < 2**20, z3.Int("max_cycles") == 2**32 - 1))
        init = list(proc.stack.top) + [x[0] for x in reversed(proc.stack.overflow)]
        it.info["init"] = init
        if pre is not None:
            pre(it, init)
        ref = Ref({"p": proc}, "p")

        def thunk():
            try:
                exec_block(it, ref, proc, root, loop_bound)
            except ExecError as e:
                return ("err", e.err)
            st = proc.stack
            return ("ok", list(st.top), [x[0] for x in reversed(st.overflow)])
        return thunk

    return interp.explore(make_run)
