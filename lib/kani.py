"""Engine B driver: run Kani proof harnesses of engines/kani-harness against /repo's current tree.
The crate is copied to .work/kani-src (so concrete-playback may edit it in place), built with its own
target dir, every harness under `timeout` and an address-space limit; FAILED / ERROR / timeout / OOM
are never reported as success."""
import os
import re
import shutil
import subprocess
import time

from common import ENV, REPO, VERIF, WORK, log

SRC = os.path.join(VERIF, "engines", "kani-harness")
DST = os.path.join(WORK, "kani-src")
TGT = os.path.join(WORK, "target", "kani")


def prepare():
    if os.path.exists(DST):
        shutil.rmtree(DST)
    shutil.copytree(SRC, DST)
    shutil.copyfile(os.path.join(REPO, "Cargo.lock"), os.path.join(DST, "Cargo.lock"))
    return DST


def run_harness(name, timeout_s=600, mem_gb=24, extra=None):
    """returns dict(status = 'success'|'failed'|'error'|'timeout', secs, failed_checks, covers_ok, log)"""
    cmd = ["cargo", "kani", "--target-dir", TGT, "--harness", name] + (extra or [])
    env = dict(ENV)
    t0 = time.time()
    limit = mem_gb * 1024 * 1024
    try:
        p = subprocess.run(["bash", "-c", f"ulimit -v {limit}; exec " + " ".join(cmd)], cwd=DST, env=env, stdout=subprocess.PIPE,
                           stderr=subprocess.STDOUT, text=True, timeout=timeout_s)
        out = p.stdout
    except subprocess.TimeoutExpired as e:
        subprocess.run(["pkill", "-f", "cbmc"], check=False)
        return dict(status="timeout", secs=time.time() - t0, failed_checks=[], covers="", log=(e.stdout or "")[-2000:] if isinstance(e.stdout, str) else "")
    secs = time.time() - t0
    status = "error"
    if "VERIFICATION:- SUCCESSFUL" in out:
        status = "success"
    elif "VERIFICATION:- FAILED" in out:
        status = "failed"
    failed = []
    if status == "failed":
        for m in re.finditer(r"Failed Checks: (.*)\n\s*File: \"([^\"]*)\", line (\d+)", out):
            failed.append(dict(desc=m.group(1), file=m.group(2), line=int(m.group(3))))
        if not failed and "CBMC failed" in out:
            status = "error"
    # unwinding assertion failures mean the bound was too small: inconclusive, not a violation
    if any("unwinding assertion" in f["desc"] for f in failed):
        status = "error"
    covers = re.findall(r"\*\* (\d+) of (\d+) cover properties satisfied", out)
    vt = re.search(r"Verification Time: ([\d.]+)s", out)
    return dict(status=status, secs=secs, verification_time=float(vt.group(1)) if vt else None, failed_checks=failed,
                covers=covers[0] if covers else None, log=out[-3000:])


def playback(name, timeout_s=1200):
    """concrete playback of a failing harness against the natively compiled real code:
    Kani writes the counterexample as a unit test into the (copied) harness crate, `cargo kani
    playback` runs it.  Returns (reproduced: bool|None, text)"""
    cmd = f"cargo kani --target-dir {TGT} --harness {name} -Z concrete-playback --concrete-playback=inplace"
    try:
        p = subprocess.run(["bash", "-c", cmd], cwd=DST, env=dict(ENV), stdout=subprocess.PIPE, stderr=subprocess.STDOUT, text=True, timeout=timeout_s)
    except subprocess.TimeoutExpired:
        return None, "playback generation timeout"
    tests = re.findall(r"fn (kani_concrete_playback_\w+)", open_all_rs(DST))
    if not tests:
        return None, p.stdout[-1500:]
    try:
        q = subprocess.run(["bash", "-c", "cargo kani playback -Z concrete-playback -- kani_concrete_playback"], cwd=DST, env=dict(ENV),
                           stdout=subprocess.PIPE, stderr=subprocess.STDOUT, text=True, timeout=timeout_s)
    except subprocess.TimeoutExpired:
        return None, "playback run timeout"
    reproduced = ("test result: FAILED" in q.stdout) or ("panicked" in q.stdout)
    return reproduced, q.stdout[-1500:]


def open_all_rs(d):
    out = []
    for root, _, files in os.walk(os.path.join(d, "src")):
        for f in files:
            if f.endswith(".rs"):
                out.append(open(os.path.join(root, f)).read())
    return "\n".join(out)
