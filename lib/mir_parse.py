"""Parser for the textual MIR produced by `rustc -Zunpretty=mir` (the subset the checks need).
Anything outside the subset raises Unsupported with the offending text - never a guess."""
import re


class Unsupported(Exception):
    pass


# ---- small balanced-text helpers ---------------------------------------------------------------------
OPEN = "([{<"
CLOSE = ")]}>"


def split_top(s, sep=","):
    """split s on sep at nesting depth 0 ('->' and '=>' are not brackets; string literals are skipped)"""
    out, depth, cur, i, n = [], 0, [], 0, len(s)
    while i < n:
        ch = s[i]
        if ch == '"':
            j = i + 1
            while j < n and s[j] != '"':
                if s[j] == "\\":
                    j += 1
                j += 1
            cur.append(s[i:j + 1])
            i = j + 1
            continue
        if ch in "([{":
            depth += 1
        elif ch in ")]}":
            depth -= 1
        elif ch == "<":
            depth += 1
        elif ch == ">":
            if i > 0 and s[i - 1] in "-=":
                pass
            else:
                depth -= 1
        if ch == sep and depth == 0:
            out.append("".join(cur).strip())
            cur = []
        else:
            cur.append(ch)
        i += 1
    last = "".join(cur).strip()
    if last or out:
        out.append(last)
    return out


def match_paren(s, i):
    """index of the parenthesis matching s[i] == '('"""
    depth = 0
    j = i
    n = len(s)
    while j < n:
        ch = s[j]
        if ch == '"':
            j += 1
            while j < n and s[j] != '"':
                if s[j] == "\\":
                    j += 1
                j += 1
        elif ch in "([{":
            depth += 1
        elif ch in ")]}":
            depth -= 1
            if depth == 0:
                return j
        j += 1
    raise Unsupported(f"unbalanced: {s}")


# ---- places -------------------------------------------------------------------------------------------
# place AST: ("local", n) | ("deref", p) | ("field", p, idx, type) | ("index", p, local_n)
#            | ("downcast", p, variant) | ("constindex", p, k, from_end) | ("subslice", p, a, b, from_end)
def parse_place(s):
    s = s.strip()
    # suffixes: [..]
    if s.endswith("]") and not s.startswith("["):
        # find the matching '[' for the final ']'
        depth = 0
        for j in range(len(s) - 1, -1, -1):
            if s[j] == "]":
                depth += 1
            elif s[j] == "[":
                depth -= 1
                if depth == 0:
                    break
        base, inner = s[:j], s[j + 1:-1].strip()
        if base:
            m = re.fullmatch(r"_(\d+)", inner)
            if m:
                return ("index", parse_place(base), int(m.group(1)))
            m = re.fullmatch(r"(-?\d+) of (\d+)", inner)
            if m:
                k = int(m.group(1))
                return ("constindex", parse_place(base), abs(k), k < 0)
            m = re.fullmatch(r"(\d+):(-?\d*)", inner)
            if m:
                raise Unsupported(f"subslice place {s}")
            raise Unsupported(f"place index {s}")
    m = re.fullmatch(r"_(\d+)", s)
    if m:
        return ("local", int(m.group(1)))
    if s.startswith("*"):
        return ("deref", parse_place(s[1:]))
    if s.startswith("("):
        end = match_paren(s, 0)
        if end != len(s) - 1:
            raise Unsupported(f"place with trailing text: {s}")
        inner = s[1:-1].strip()
        if inner.startswith("*"):
            return ("deref", parse_place(inner[1:]))
        # downcast: (place as Variant)
        parts = split_depth0(inner, " as ")
        if len(parts) == 2 and ":" not in parts[1]:
            return ("downcast", parse_place(parts[0]), parts[1].strip())
        # field: (place.idx: type)
        k = find_depth0(inner, ": ")
        if k < 0:
            raise Unsupported(f"place {s}")
        left, ty = inner[:k], inner[k + 2:]
        dot = left.rfind(".")
        if dot < 0:
            raise Unsupported(f"place {s}")
        return ("field", parse_place(left[:dot]), int(left[dot + 1:]), ty.strip())
    raise Unsupported(f"place {s}")


def find_depth0(s, needle):
    depth = 0
    i, n = 0, len(s)
    while i < n:
        ch = s[i]
        if ch in "([{<":
            depth += 1
        elif ch in ")]}":
            depth -= 1
        elif ch == ">" and not (i > 0 and s[i - 1] in "-="):
            depth -= 1
        if depth == 0 and s.startswith(needle, i):
            return i
        i += 1
    return -1


def split_depth0(s, needle):
    k = find_depth0(s, needle)
    if k < 0:
        return [s]
    return [s[:k], s[k + len(needle):]]


# ---- operands / rvalues -----------------------------------------------------------------------------
# operand: ("copy"|"move", place) | ("const", text, type)
CONST_INT = re.compile(r"^(-?\d+)_(u8|u16|u32|u64|u128|usize|i8|i16|i32|i64|i128|isize)$")


def parse_operand(s):
    s = s.strip()
    if s.startswith("no_retag "):
        s = s[9:].strip()
    if s.startswith("copy "):
        return ("copy", parse_place(s[5:]))
    if s.startswith("move "):
        return ("move", parse_place(s[5:]))
    if s.startswith("const "):
        return ("const", s[6:].strip())
    if re.fullmatch(r"[A-Za-z_][\w:<>, ]*", s):
        return ("fnptr", s)
    raise Unsupported(f"operand {s}")


BINOPS = {"Add", "Sub", "Mul", "Div", "Rem", "BitAnd", "BitOr", "BitXor", "Shl", "Shr", "Eq", "Ne", "Lt", "Le", "Gt", "Ge",
          "AddWithOverflow", "SubWithOverflow", "MulWithOverflow", "AddUnchecked", "SubUnchecked", "MulUnchecked",
          "ShlUnchecked", "ShrUnchecked", "Offset", "Cmp"}
UNOPS = {"Not", "Neg", "PtrMetadata"}


def parse_rvalue(s):
    """returns a tuple describing the rvalue"""
    s = s.strip()
    if s.startswith("no_retag "):
        s = s[9:].strip()
    if s.startswith("&mut "):
        return ("ref", parse_place(s[5:]), True)
    if s.startswith("&raw const (fake) "):
        return ("ref", parse_place(s[len("&raw const (fake) "):]), False)
    if s.startswith("&raw "):
        raise Unsupported(f"raw pointer rvalue {s}")
    if s.startswith("&"):
        return ("ref", parse_place(s[1:]), False)
    if s.startswith(("copy ", "move ", "const ")):
        # possibly a cast: "<operand> as <type> (Kind)"
        parts = split_depth0(s, " as ")
        if len(parts) == 2 and not s.startswith("const "):
            m = re.fullmatch(r"(.*) \((\w+(?:\(.*\))?)\)", parts[1].strip())
            if m:
                return ("cast", parse_operand(parts[0]), m.group(1).strip(), m.group(2))
        if len(parts) == 2 and s.startswith("const "):
            m = re.fullmatch(r"(.*) \((\w+(?:\(.*\))?)\)", parts[1].strip())
            if m and find_depth0(parts[0], "(") < 0:
                return ("cast", parse_operand(parts[0]), m.group(1).strip(), m.group(2))
        return ("use", parse_operand(s))
    m = re.match(r"^(\w+)\((.*)\)$", s, re.S)
    if m and m.group(1) in BINOPS:
        a = split_top(m.group(2))
        return ("binop", m.group(1), parse_operand(a[0]), parse_operand(a[1]))
    if m and m.group(1) in UNOPS:
        return ("unop", m.group(1), parse_operand(m.group(2)))
    if m and m.group(1) == "discriminant":
        return ("discriminant", parse_place(m.group(2)))
    if m and m.group(1) == "Len":
        return ("len", parse_place(m.group(2)))
    if s.startswith("[") and s.endswith("]"):
        inner = s[1:-1]
        parts = split_top(inner, ";")
        if len(parts) == 2:
            return ("repeat", parse_operand(parts[0]), parts[1].strip())
        return ("array", [parse_operand(x) for x in split_top(inner)] if inner.strip() else [])
    if s.startswith("(") and s.endswith(")") and match_paren(s, 0) == len(s) - 1:
        inner = s[1:-1].strip()
        items = split_top(inner) if inner else []
        if items and items[-1] == "":
            items = items[:-1]
        return ("tuple", [parse_operand(x) for x in items])
    # aggregates: Path { f: v, .. } | Path(args) | Path
    if s.endswith("}"):
        k = find_depth0(s, " {")
        if k >= 0:
            name = s[:k].strip()
            inner = s[k + 2:-1].strip()
            fields = []
            for item in split_top(inner):
                if not item:
                    continue
                fk = find_depth0(item, ": ")
                fields.append((item[:fk].strip(), parse_operand(item[fk + 2:])))
            return ("struct", name, fields)
    if s.endswith(")"):
        # find the '(' matching the final ')'
        depth = 0
        for j in range(len(s) - 1, -1, -1):
            if s[j] == ")":
                depth += 1
            elif s[j] == "(":
                depth -= 1
                if depth == 0:
                    break
        name, inner = s[:j].strip(), s[j + 1:-1].strip()
        args = [parse_operand(x) for x in split_top(inner)] if inner else []
        return ("variant", name, args)
    if re.fullmatch(r"[\w:<>, ()\[\];&'{}@/.#\-]+", s):
        return ("variant", s, [])
    raise Unsupported(f"rvalue {s}")


# ---- functions -----------------------------------------------------------------------------------------
class Fn:
    def __init__(self, name, args, ret, locals_, blocks, text):
        self.name, self.args, self.ret, self.locals, self.blocks, self.text = name, args, ret, locals_, blocks, text


FN_HEAD = re.compile(r"^fn (.*)$")


def parse_functions(src, want=None):
    """parse `fn ... { ... }` items; `want(name)` filters which bodies are parsed in detail.
    Returns dict name -> Fn (bodies parsed lazily)."""
    fns = {}
    lines = src.split("\n")
    i, n = 0, len(lines)
    while i < n:
        line = lines[i]
        mc = re.match(r"^(?:const|static) (.*): (.*) = \{$", line)
        if mc and not line.startswith(" "):
            j = i + 1
            while j < n and lines[j] != "}":
                j += 1
            f = LazyFn(mc.group(1).strip(), [], mc.group(2).strip(), lines[i + 1:j])
            f.is_const = True
            fns.setdefault(f.name, f)
            i = j + 1
            continue
        ms = re.match(r"^(?:const|static) (.*): (.*?) = (const .*);$", line)
        if ms and not line.startswith(" "):
            # single-line item `const NAME: T = const V;` -> a one-block body returning V
            f = LazyFn(ms.group(1).strip(), [], ms.group(2).strip(), ["    bb0: {", f"        _0 = {ms.group(3)};", "        return;", "    }"])
            f.is_const = True
            fns.setdefault(f.name, f)
            i += 1
            continue
        if line.startswith("fn ") and line.rstrip().endswith("{"):
            j = i + 1
            while j < n and lines[j] != "}":
                j += 1
            head = line[3:].rstrip()[:-1].rstrip()
            body = lines[i + 1:j]
            name, args, ret = parse_head(head)
            f = LazyFn(name, args, ret, body)
            if name in fns:
                # promoted consts / duplicates (e.g. closures) keep first
                fns.setdefault(name + "#dup", f)
            else:
                fns[name] = f
            i = j + 1
        else:
            i += 1
    return fns


def parse_head(head):
    # name(args) -> ret     (args: "_1: T, _2: U")
    k = head.find("(_")
    if k < 0:
        k = head.rfind("()")
        if k < 0:
            k = head.find("(")
    end = match_paren(head, k)
    name = head[:k]
    argtxt = head[k + 1:end]
    ret = head[end + 1:].strip()
    if ret.startswith("->"):
        ret = ret[2:].strip()
    args = []
    for a in split_top(argtxt):
        if not a:
            continue
        m = re.match(r"^(?:mut )?_(\d+): (.*)$", a, re.S)
        if not m:
            raise Unsupported(f"fn arg {a} in {head}")
        args.append((int(m.group(1)), m.group(2).strip()))
    return name, args, ret


class LazyFn:
    def __init__(self, name, args, ret, body_lines):
        self.name, self.args, self.ret, self.body_lines = name, args, ret, body_lines
        self._parsed = None

    def parsed(self):
        if self._parsed is None:
            self._parsed = parse_body(self)
        return self._parsed


LET = re.compile(r"^\s*let (?:mut )?_(\d+): (.*);$")
BB = re.compile(r"^\s*bb(\d+)(?: \(cleanup\))?: \{$")


def parse_body(lf):
    locals_ = {n: t for n, t in lf.args}
    locals_[0] = lf.ret
    blocks = {}
    cur = None
    cleanup = set()
    for raw in lf.body_lines:
        line = raw.strip()
        if not line:
            continue
        m = LET.match(raw)
        if m:
            locals_[int(m.group(1))] = m.group(2).strip()
            continue
        m = BB.match(raw)
        if m:
            cur = int(m.group(1))
            blocks[cur] = []
            if "(cleanup)" in raw:
                cleanup.add(cur)
            continue
        if cur is None:
            continue  # debug / scope lines
        if line == "}":
            cur = None
            continue
        blocks[cur].append(line)
    out = {}
    for b, lines in blocks.items():
        if b in cleanup:
            continue
        stmts = []
        for ln in lines[:-1]:
            stmts.append(parse_stmt(ln))
        term = parse_term(lines[-1])
        out[b] = (stmts, term)
    return Fn(lf.name, lf.args, lf.ret, locals_, out, lf.body_lines)


def parse_stmt(line):
    assert line.endswith(";"), line
    line = line[:-1]
    if line.startswith(("StorageLive(", "StorageDead(", "FakeRead(", "PlaceMention(", "AscribeUserType(", "Coverage", "nop", "Retag(", "ConstEvalCounter")):
        return ("nop",)
    if line.startswith("Deinit("):
        return ("nop",)
    m = re.match(r"^discriminant\((.*)\) = (\d+)$", line)
    if m:
        return ("setdiscr", parse_place(m.group(1)), int(m.group(2)))
    k = find_depth0(line, " = ")
    if k < 0:
        raise Unsupported(f"statement {line}")
    return ("assign", parse_place(line[:k]), parse_rvalue(line[k + 3:]), line)


def parse_targets(s):
    """'[return: bb1, unwind continue]' -> dict"""
    s = s.strip()
    assert s.startswith("[") and s.endswith("]"), s
    d = {}
    for item in split_top(s[1:-1]):
        if ":" in item:
            k, v = item.split(":", 1)
            d[k.strip()] = v.strip()
        else:
            d[item.strip()] = True
    return d


def parse_term(line):
    assert line.endswith(";"), line
    line = line[:-1]
    if line == "return":
        return ("return",)
    if line == "unreachable":
        return ("unreachable",)
    if line.startswith("resume") or line.startswith("terminate"):
        return ("unreachable",)
    m = re.match(r"^goto -> bb(\d+)$", line)
    if m:
        return ("goto", int(m.group(1)))
    if line.startswith("switchInt("):
        end = match_paren(line, len("switchInt"))
        op = parse_operand(line[len("switchInt("):end])
        tg = parse_targets(line[end + 1:].strip()[2:].strip())
        cases = []
        other = None
        for k, v in tg.items():
            b = int(v[2:])
            if k == "otherwise":
                other = b
            else:
                cases.append((int(k), b))
        return ("switch", op, cases, other)
    if line.startswith("assert("):
        end = match_paren(line, len("assert"))
        inner = line[len("assert("):end]
        parts = split_top(inner)
        cond = parts[0].strip()
        expect = True
        if cond.startswith("!"):
            expect = False
            cond = cond[1:]
        tg = parse_targets(line[end + 1:].strip()[2:].strip())
        return ("assert", parse_operand(cond), expect, parts[1] if len(parts) > 1 else "", int(tg["success"][2:]))
    if line.startswith("drop("):
        end = match_paren(line, len("drop"))
        tg = parse_targets(line[end + 1:].strip()[2:].strip())
        return ("drop", parse_place(line[len("drop("):end]), int(tg["return"][2:]))
    # call: place = callee(args) -> [return: bbN, unwind ...]   (diverging: no return target)
    k = find_depth0(line, " -> [")
    if k >= 0:
        head, tg = line[:k], parse_targets(line[k + 4:])
        e = find_depth0(head, " = ")
        dest = parse_place(head[:e])
        call = head[e + 3:].strip()
        # callee is everything before the final (...) group
        depth = 0
        for j in range(len(call) - 1, -1, -1):
            if call[j] == ")":
                depth += 1
            elif call[j] == "(":
                depth -= 1
                if depth == 0:
                    break
        callee, inner = call[:j].strip(), call[j + 1:-1].strip()
        args = [parse_operand(x) for x in split_top(inner)] if inner else []
        ret = tg.get("return")
        return ("call", dest, callee, args, int(ret[2:]) if ret else None)
    # diverging call:  place = callee(args) -> unwind continue | -> bbN (cleanup)
    m = re.match(r"^(.*\)) -> (unwind \w+|bb\d+)$", line, re.S)
    if m:
        head = m.group(1)
        e = find_depth0(head, " = ")
        dest = parse_place(head[:e])
        call = head[e + 3:].strip()
        depth = 0
        for j in range(len(call) - 1, -1, -1):
            if call[j] == ")":
                depth += 1
            elif call[j] == "(":
                depth -= 1
                if depth == 0:
                    break
        callee, inner = call[:j].strip(), call[j + 1:-1].strip()
        try:
            args = [parse_operand(x) for x in split_top(inner)] if inner else []
        except Unsupported:
            args = []
        return ("call", dest, callee, args, None)
    raise Unsupported(f"terminator {line}")
