"""Generic natives for the Rust library idioms that show up in MIR of straight-line glue code:
slices / Vec, iterator adaptors (take, skip, rev, enumerate, zip, map with the real closure body,
collect, next), Option helpers, slice ranges.  Containers have concrete shape (python lists of
symbolic scalars); closures are executed by interpreting their own MIR bodies."""
import re

from mir_parse import Unsupported
from mirsym import En, I, Panic, Ref, Struct, UNIT
import procmodel as pm

R = re.compile


class It:
    """an iterator over already-materialised items with a pipeline of closures still to apply"""

    def __init__(self, items, maps=()):
        self.items, self.maps = list(items), list(maps)

    def pop(self, it):
        if not self.items:
            return None
        x = self.items.pop(0)
        for fn, clo in self.maps:
            x = it.call(clo, [x]) if fn == "fnitem" else call_closure(it, fn, clo, [x])
        return x


def closure_fn(it, span):
    key = "{closure@" + span + "}"
    c = [n for n, f in it.fns.items() if "{closure#" in n and f.args and key in f.args[0][1]]
    if len(c) != 1:
        raise Unsupported(f"closure {span} not found uniquely: {c}")
    return it.fns[c[0]].parsed()


def call_closure(it, fn, clo, args):
    first_ty = fn.args[0][1]
    carg = clo if not first_ty.startswith("&") else Ref({"c": clo}, "c")
    # closures taking a tuple argument receive its components as separate MIR arguments
    if len(fn.args) - 1 != len(args) and len(args) == 1 and isinstance(args[0], (list, tuple)):
        args = list(args[0])
    return it.run_fn(fn, [carg] + list(args))


def as_list(x):
    x = pm.deref(x)
    if isinstance(x, It):
        return x
    if isinstance(x, list):
        return x
    raise Unsupported(f"not a sequence: {x!r}")


def n_iter(it, a, d, m):
    l = as_list(a[0])
    return It([Ref(l, i) for i in range(len(l))])


def n_into_iter(it, a, d, m):
    x = pm.deref(a[0])
    if isinstance(x, It):
        return x
    if isinstance(x, list):
        by_ref = m.group(0).startswith("<&")
        return It([Ref(x, i) for i in range(len(x))] if by_ref else list(x))
    raise Unsupported(f"into_iter of {x!r}")


def conc(x):
    v = x.v if isinstance(x, I) else x
    if not isinstance(v, int):
        raise Unsupported("symbolic count in an iterator adaptor")
    return v


def n_adapt(it, a, d, m):
    kind = m.group(1)
    src = pm.deref(a[0])
    if not isinstance(src, It):
        if kind == "next" and isinstance(src, Struct):
            return pm.n_range_next(it, a, d, m)  # Range<usize>
        if isinstance(src, Struct) and 0 in src and 1 in src and isinstance(src[0], I) and isinstance(src[1], I):
            # Range<usize> used as an iterator with an adaptor
            src = It([I(i, src[0].ty) for i in range(conc(src[0]), conc(src[1]))])
        else:
            raise Unsupported(f"iterator adaptor on {src!r}")
    if kind == "take":
        return It(src.items[:conc(a[1])], src.maps)
    if kind == "skip":
        return It(src.items[conc(a[1]):], src.maps)
    if kind == "rev":
        return It(list(reversed(src.items)), src.maps)
    if kind == "enumerate":
        if src.maps:
            src = It([src.pop(it) for _ in range(len(src.items))])
        return It([[I(i, "usize"), x] for i, x in enumerate(src.items)])
    if kind == "zip":
        other = pm.deref(a[1])
        if isinstance(other, list):
            other = It(list(other))
        xs = [src.pop(it) for _ in range(len(src.items))] if src.maps else src.items
        ys = [other.pop(it) for _ in range(len(other.items))] if other.maps else other.items
        return It([[x, y] for x, y in zip(xs, ys)])
    if kind == "flat_map":
        span = re.search(r"\{closure@([^}]*)\}", m.group(0))
        fn = closure_fn(it, span.group(1))
        out = []
        for _ in range(len(src.items)):
            sub = pm.deref(call_closure(it, fn, a[1], [src.pop(it)]))
            if isinstance(sub, It):
                out += [sub.pop(it) for _ in range(len(sub.items))]
            else:
                out += list(sub)
        return It(out)
    if kind in ("find", "position", "any", "all"):
        span = re.search(r"\{closure@([^}]*)\}", m.group(0))
        fn = closure_fn(it, span.group(1))
        idx = 0
        while src.items:
            x = src.pop(it)
            # predicates of find take a reference to the item, the others the item itself
            arg = Ref({"x": x}, "x") if kind == "find" else x
            hit = call_closure(it, fn, a[1], [arg])
            hit = it.decide(hit) if not isinstance(hit, bool) else hit
            if kind == "all":
                if not hit:
                    return False
            elif hit:
                if kind == "any":
                    return True
                return En("Some", [x if kind == "find" else I(idx, "usize")], ty="Option")
            idx += 1
        if kind == "all":
            return True
        if kind == "any":
            return False
        return En("None", [], ty="Option")
    if kind == "fold":
        span = re.search(r"\{closure@([^}]*)\}", m.group(0))
        fn = closure_fn(it, span.group(1))
        acc = a[1]
        for _ in range(len(src.items)):
            acc = call_closure(it, fn, a[2], [acc, src.pop(it)])
        return acc
    if kind == "chain":
        other = pm.deref(a[1])
        if isinstance(other, list):
            other = It(list(other))
        xs = [src.pop(it) for _ in range(len(src.items))] if src.maps else src.items
        ys = [other.pop(it) for _ in range(len(other.items))] if other.maps else other.items
        return It(list(xs) + list(ys))
    if kind in ("copied", "cloned"):
        return It([pm.deref(x) for x in src.items], src.maps)
    if kind == "map":
        span = re.search(r"\{closure@([^}]*)\}", m.group(0))
        if not span:
            item = re.search(r"fn\([^)]*\)(?: -> [^{]*)? \{([^}]*)\}>$", m.group(0))
            if not item:
                raise Unsupported(f"map without a closure: {m.group(0)}")
            return It(src.items, src.maps + [("fnitem", item.group(1))])
        return It(src.items, src.maps + [(closure_fn(it, span.group(1)), a[1])])
    if kind == "next":
        x = src.pop(it)
        return En("None", [], ty="Option") if x is None else En("Some", [x], ty="Option")
    if kind == "collect":
        return [src.pop(it) for _ in range(len(src.items))]
    raise Unsupported(kind)


class SliceView(list):
    """&mut v[lo..hi]: reads and writes go through to the parent list"""

    def __init__(self, parent, lo, hi):
        super().__init__(parent[lo:hi])
        self.parent, self.lo = parent, lo

    def __setitem__(self, i, v):
        super().__setitem__(i, v)
        if isinstance(i, int):
            self.parent[self.lo + i] = v

    def __getitem__(self, i):
        if isinstance(i, int):
            return self.parent[self.lo + (i if i >= 0 else len(self) + i)]
        return super().__getitem__(i)


def n_copy_from_slice(it, a, d, m):
    dst, src = pm.deref(a[0]), pm.deref(a[1])
    if len(dst) != len(src):
        raise Panic("copy_from_slice: source slice length does not match destination slice length", kind="panic")
    for i in range(len(src)):
        dst[i] = src[i]
    return UNIT


def n_chunks_exact(it, a, d, m):
    lst = pm.deref(a[0])
    n = conc(a[1])
    return It([Ref({"v": SliceView(lst, i, i + n)}, "v") for i in range(0, len(lst) - len(lst) % n, n)])


def n_from_elem(it, a, d, m):
    return [a[0] for _ in range(conc(a[1]))]


def n_index_range(it, a, d, m):
    lst = pm.deref(a[0])
    r = pm.deref(a[1])
    kind = m.group(1) or (m.group(2) if m.re.groups > 1 else None)
    fields = [r[i] for i in range(2) if i in r] if isinstance(r, Struct) else list(getattr(r, "fields", []))
    if kind == "RangeTo":
        lo, hi = 0, conc(fields[0])
    elif kind == "RangeFrom":
        lo, hi = conc(fields[0]), len(lst)
    else:
        lo, hi = conc(fields[0]), conc(fields[1])
    if lo > hi or hi > len(lst):
        raise Panic(f"slice index {lo}..{hi} out of range for length {len(lst)}", kind="panic")
    if "index_mut" in m.group(0):
        # a reference to the view: moving a reference never copies the data it points to
        return Ref({"v": SliceView(lst, lo, hi)}, "v")
    return lst[lo:hi]


def n_try_into_array(it, a, d, m):
    l = pm.deref(a[0])
    n = int(m.group(1))
    if len(l) == n:
        return En("Ok", [list(l)], ty="Result")
    return En("Err", [l], ty="Result")


def n_vec_push(it, a, d, m):
    pm.deref(a[0]).append(pm.deref(a[1]))
    return UNIT


def n_npo2(it, a, d, m):
    x = a[0].v
    if isinstance(x, int):
        return I(1 << (x - 1).bit_length() if x > 1 else 1, "usize")
    raise Unsupported("next_power_of_two of a symbolic value")


NATIVES = [
    (R(r"core::num::<impl usize>::next_power_of_two"), n_npo2),
    (R(r"core::slice::<impl \[.*\]>::iter|core::slice::<impl \[.*\]>::iter_mut"), n_iter),
    (R(r"<&?(?:mut )?(?:std::vec::)?Vec<.*> as IntoIterator>::into_iter|<&\[.*\] as IntoIterator>::into_iter|<&\[.*; \d+\] as IntoIterator>::into_iter|<\[.*; \d+\] as IntoIterator>::into_iter"), n_into_iter),
    (R(r"<(?:std::iter::)?(?:Take|Skip|Rev|Enumerate|Zip|Chain|FlatMap|Map|Copied|Cloned|ChunksExactMut|ChunksExact)<.*> as IntoIterator>::into_iter|<std::slice::Iter<'_, .*> as IntoIterator>::into_iter|<std::slice::IterMut<'_, .*> as IntoIterator>::into_iter|<std::vec::IntoIter<.*> as IntoIterator>::into_iter"), pm.n_identity),
    (R(r"<.* as (?:Iterator|DoubleEndedIterator)>::(take|skip|rev|enumerate|zip|chain|flat_map|fold|find|position|any|all|copied|cloned|map|next|collect)(?:::<.*>)?"), n_adapt),
    (R(r"<(?:std::vec::)?Vec<.*> as Index<(?:std::ops::)?(RangeTo|RangeFrom|Range)<usize>>>::index|core::slice::index::<impl Index<(?:std::ops::)?(RangeTo|RangeFrom|Range)<usize>> for \[.*\]>::index"), n_index_range),
    (R(r"<\[.*\] as Index<(?:std::ops::)?(RangeTo|RangeFrom|Range)<usize>>>::index"), n_index_range),
    (R(r"<(?:std::vec::)?Vec<.*> as IndexMut<(?:std::ops::)?(RangeTo|RangeFrom|Range)<usize>>>::index_mut|<\[.*\] as IndexMut<(?:std::ops::)?(RangeTo|RangeFrom|Range)<usize>>>::index_mut"), n_index_range),
    (R(r"core::slice::<impl \[.*\]>::copy_from_slice"), n_copy_from_slice),
    (R(r"core::slice::<impl \[.*\]>::chunks_exact_mut|core::slice::<impl \[.*\]>::chunks_exact"), n_chunks_exact),
    (R(r"(?:std|alloc)::vec::from_elem::<.*>"), n_from_elem),
    (R(r"<(?:std::slice::)?ChunksExactMut<.*> as IntoIterator>::into_iter|<(?:std::slice::)?ChunksExact<.*> as IntoIterator>::into_iter"), pm.n_identity),
    (R(r"<(?:std::vec::)?Vec<.*> as TryInto<\[.*; (\d+)\]>>::try_into"), n_try_into_array),
    (R(r"(?:std::vec::)?Vec::<.*>::new|(?:std::vec::)?Vec::<.*>::with_capacity"), lambda it, a, d, m: []),
    (R(r"(?:std::vec::)?Vec::<.*>::push"), n_vec_push),
    (R(r"(?:std::vec::)?Vec::<.*>::len|core::slice::<impl \[.*\]>::len"), lambda it, a, d, m: I(len(pm.deref(a[0])), "usize")),
    (R(r"(?:std::vec::)?Vec::<.*>::is_empty|core::slice::<impl \[.*\]>::is_empty"), lambda it, a, d, m: len(pm.deref(a[0])) == 0),
    (R(r"<(?:std::vec::)?Vec<.*> as Deref>::deref|<(?:std::vec::)?Vec<.*> as DerefMut>::deref_mut|(?:std::vec::)?Vec::<.*>::as_slice"), pm.n_identity),
    (R(r"(?:std::vec::)?Vec::<.*>::extend_from_slice|<(?:std::vec::)?Vec<.*> as Extend<.*>>::extend::<.*>"), lambda it, a, d, m: (pm.deref(a[0]).extend(pm.deref(x) for x in (as_list(a[1]) if not isinstance(pm.deref(a[1]), It) else [pm.deref(a[1]).pop(it) for _ in range(len(pm.deref(a[1]).items))])), UNIT)[1]),
    (R(r"(?:std|core)::slice::<impl \[.*\]>::to_vec|<(?:std::vec::)?Vec<.*> as Clone>::clone"), lambda it, a, d, m: list(pm.deref(a[0]))),
    (R(r"(?:std::vec::)?Vec::<.*>::append"), lambda it, a, d, m: (pm.deref(a[0]).extend(pm.deref(a[1])), pm.deref(a[1]).clear(), UNIT)[2]),
    (R(r"Option::<.*>::is_some"), lambda it, a, d, m: pm.deref(a[0]).variant == "Some"),
    (R(r"Option::<.*>::is_none"), lambda it, a, d, m: pm.deref(a[0]).variant == "None"),
]
