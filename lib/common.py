"""Shared plumbing for the checks: building engines against /repo's working tree, evidence files,
known-findings, verdict conventions (exit 0 / 1 + VIOLATION / 2 inconclusive)."""
import hashlib
import json
import os
import shutil
import subprocess
import sys
import time

VERIF = os.path.dirname(os.path.dirname(os.path.abspath(__file__)))
REPO = os.environ.get("VERIF_REPO", "/repo")
WORK = os.path.join(VERIF, ".work")
EVID = os.path.join(VERIF, "evidence")
REPLAYS = os.path.join(VERIF, "replays")
KNOWN = os.path.join(VERIF, "known-findings.txt")

ENV = dict(os.environ)
ENV.update({"CARGO_NET_OFFLINE": "true", "CARGO_TERM_COLOR": "never"})


def tier():
    return os.environ.get("VERIF_TIER", "quick")


def seed():
    try:
        return int(os.environ.get("VERIF_SEED", "0"))
    except ValueError:
        return 0


def log(*a):
    print(*a, file=sys.stderr, flush=True)


def run(cmd, cwd=None, env=None, timeout=None, check=True, capture=True):
    e = dict(ENV)
    if env:
        e.update(env)
    p = subprocess.run(cmd, cwd=cwd, env=e, timeout=timeout, stdout=subprocess.PIPE if capture else None,
                       stderr=subprocess.STDOUT if capture else None, text=True)
    if check and p.returncode != 0:
        log(p.stdout[-4000:] if p.stdout else "")
        raise RuntimeError(f"command failed ({p.returncode}): {cmd}")
    return p


def build_engine(name, release=False, features=None, bin_name=None):
    """cargo-build /verif/engines/<name> against /repo's current tree (path deps), own target dir.
    /repo/Cargo.lock is copied so that the offline registry versions match the repository's."""
    src = os.path.join(VERIF, "engines", name)
    shutil.copyfile(os.path.join(REPO, "Cargo.lock"), os.path.join(src, "Cargo.lock"))
    tgt = os.path.join(WORK, "target", name)
    cmd = ["cargo", "build"]
    if release:
        cmd.append("--release")
    if features:
        cmd += ["--features", features]
    t0 = time.time()
    p = run(cmd, cwd=src, env={"CARGO_TARGET_DIR": tgt}, check=False)
    if p.returncode != 0:
        log(p.stdout[-6000:])
        log(f"BUILD-FAILED engine={name}")
        sys.exit(2)
    log(f"[build] {name} {time.time()-t0:.1f}s")
    return os.path.join(tgt, "release" if release else "debug", bin_name or name)


def repo_fingerprint(paths):
    """sha256 over the given files/dirs of /repo (evidence: which sources the encoding came from)"""
    h = hashlib.sha256()
    for p in paths:
        full = os.path.join(REPO, p)
        if os.path.isdir(full):
            for root, _, files in sorted(os.walk(full)):
                for f in sorted(files):
                    if f.endswith((".rs", ".masm", ".toml")):
                        with open(os.path.join(root, f), "rb") as fh:
                            h.update(fh.read())
        elif os.path.exists(full):
            with open(full, "rb") as fh:
                h.update(fh.read())
    return h.hexdigest()[:16]


# ---- known findings -------------------------------------------------------------------------------
def known_findings(prop):
    """returns list of (key, text) for `known: property=<id> key=<key> <text>` lines"""
    out = []
    if os.path.exists(KNOWN):
        for line in open(KNOWN):
            line = line.strip()
            if line.startswith("known:") and f"property={prop} " in line:
                rest = line.split(f"property={prop} ", 1)[1]
                key = rest.split()[0]
                if key.startswith("key="):
                    out.append((key[4:], rest))
    return out


# ---- evidence ---------------------------------------------------------------------------------------
def write_evidence(prop, level, coverage, assumptions, wall_s, violations=0):
    os.makedirs(EVID, exist_ok=True)
    ev = {
        "property_id": prop,
        "tier": "thorough" if tier() == "thorough" else "quick",
        "seed": seed(),
        "level": level,
        "coverage": coverage,
        "assumptions": assumptions,
        "wall_s": round(wall_s, 2),
        "violations": violations,
    }
    with open(os.path.join(EVID, f"{prop}.json"), "w") as f:
        json.dump(ev, f, indent=1, default=str)


def save_replay(prop, name, obj):
    d = os.path.join(REPLAYS, prop)
    os.makedirs(d, exist_ok=True)
    path = os.path.join(d, f"{name}.json")
    with open(path, "w") as f:
        json.dump(obj, f, indent=1, default=str)
    return path


class Verdict:
    """collects obligation outcomes for one property run"""

    def __init__(self, prop):
        self.prop = prop
        self.t0 = time.time()
        self.obligations = []  # dict(name, status, time, detail)
        self.violations = []  # (name, replay_path, text)
        self.inconclusive = []
        self.known_hit = []
        self.known = known_findings(prop)

    def add(self, name, status, secs=0.0, detail=None):
        self.obligations.append({"name": name, "status": status, "time_s": round(secs, 3), "detail": detail})
        if status == "inconclusive":
            self.inconclusive.append(name)

    def violation(self, name, replay_path, text, key=None):
        key = key or name
        for k, t in self.known:
            if k == key:
                self.known_hit.append((k, t))
                self.add(name, "known-finding", detail=text)
                return
        self.violations.append((name, replay_path, text))
        self.add(name, "violation", detail=text)

    def counts(self):
        c = {}
        for o in self.obligations:
            c[o["status"]] = c.get(o["status"], 0) + 1
        return c

    def finish(self):
        for k, t in self.known_hit:
            print(f"KNOWN-FINDING: property={self.prop} {t}")
        for name, path, text in self.violations:
            print(f"VIOLATION property={self.prop} replay={path}")
            log(f"  {name}: {text}")
        c = self.counts()
        log(f"[{self.prop}] obligations: {c}  wall {time.time()-self.t0:.1f}s")
        if self.violations:
            sys.exit(1)
        if self.inconclusive:
            log(f"[{self.prop}] INCONCLUSIVE: {self.inconclusive[:10]}")
            for o in self.obligations:
                if o["status"] == "inconclusive":
                    log(f"    {o['name']}: {str(o['detail'])[:300]}")
            sys.exit(2)
        sys.exit(0)
