"""Engine C: symbolic interpreter for the MIR of the processor (DESIGN 2.3).

Concrete heap shape, symbolic scalars.  Machine integers are z3 Ints with explicit wrap-around at
their width; Felt values are linear forms of lib/field.py (Int mod p, uninterpreted fmul).
Forking is done by re-execution with a decision prefix (stateless exploration): every symbolic
branch asks the solver which sides are feasible under the path condition.
Anything the interpreter does not know raises Unsupported (exit 2 upstream), never a guess."""
import re

import z3

import mir_parse as mp
from field import P, FieldCtx, Lin, lin
from mir_parse import Unsupported

INT_BITS = {"u8": 8, "u16": 16, "u32": 32, "u64": 64, "u128": 128, "usize": 64,
            "i8": 8, "i16": 16, "i32": 32, "i64": 64, "i128": 128, "isize": 64}


class Panic(Exception):
    """the path ends in a Rust panic (assert terminator, panic call, unreachable)"""

    def __init__(self, msg, kind="panic"):
        super().__init__(msg)
        self.kind = kind


class PathLimit(Exception):
    pass


# ---- values -------------------------------------------------------------------------------------------
class I:
    """machine integer: v is a python int or a z3 Int term, already reduced into the type's range"""
    __slots__ = ("v", "ty")

    def __init__(self, v, ty):
        self.v, self.ty = v, ty

    def __repr__(self):
        return f"I({self.v}:{self.ty})"


class F:
    """field element: linear form"""
    __slots__ = ("l",)

    def __init__(self, l):
        self.l = lin(l)

    def __repr__(self):
        return f"F({self.l})"


class En:
    """enum value"""
    __slots__ = ("variant", "fields", "ty")

    def __init__(self, variant, fields=None, ty=None):
        self.variant, self.fields, self.ty = variant, list(fields or []), ty

    def __repr__(self):
        return f"En({self.variant}, {self.fields})"


class Ref:
    __slots__ = ("box", "key")

    def __init__(self, box, key):
        self.box, self.key = box, key

    def get(self):
        return self.box[self.key]

    def set(self, v):
        self.box[self.key] = v


class Struct(dict):
    """struct / tuple with lazily created fields (index -> value)"""
    pass


class Opaque:
    """value the interpreter carries around but never looks into"""

    def __init__(self, what):
        self.what = what

    def __repr__(self):
        return f"Opaque({self.what})"


UNIT = ()


def is_sym(x):
    return isinstance(x, z3.ExprRef)


def clone(v):
    if isinstance(v, list):
        return [clone(x) for x in v]
    if isinstance(v, Struct):
        s = Struct()
        for k, x in v.items():
            s[k] = clone(x)
        return s
    if isinstance(v, En):
        return En(v.variant, [clone(x) for x in v.fields], v.ty)
    return v


# ---- the interpreter --------------------------------------------------------------------------------
class Interp:
    def __init__(self, fns, natives, consts=None, max_paths=4096, timeout_ms=20000):
        self.fns = fns  # name -> LazyFn
        self.natives = natives  # list of (regex, handler)
        self.consts = consts or {}
        self.max_paths = max_paths
        self.timeout_ms = timeout_ms
        self.overflow_wrap = True
        self.feas_first_ms = 4000
        self.by_last = {}
        for name in fns:
            self.by_last.setdefault(last_segment(name), []).append(name)
        self._resolve_cache = {}

    # ---- exploration driver ------------------------------------------------------------------------
    def explore(self, make_run):
        """make_run(interp) sets up models/inputs (calling begin_run) and returns a thunk that
        executes the function.  Returns a PathResult for every feasible path."""
        pending = [[]]
        results = []
        while pending:
            prefix = pending.pop()
            if len(results) >= self.max_paths:
                raise PathLimit(f"more than {self.max_paths} paths")
            self.trail = []  # outcome of every symbolic decide() call of this run, in call order
            self.prefix = prefix
            self.new_alts = []
            self.pc = []
            self.ctx = FieldCtx(u32_axiom=True)
            self.events = []
            self.solver = z3.Solver()
            self.solver.set("timeout", self.timeout_ms)
            self.nside = 0
            self.fresh_n = 0
            self.models = None
            self.info = {}
            thunk = make_run(self)
            outcome, value = "ok", None
            try:
                value = thunk()
            except Panic as p:
                outcome, value = p.kind, str(p)
            if outcome != "infeasible":
                pr = PathResult(outcome, value, list(self.pc), self.ctx, list(self.events), self.models)
                pr.info = self.info
                pr.decisions = len(self.trail)
                results.append(pr)
            pending.extend(self.new_alts)
        return results

    def begin_run(self, models):
        self.models = models

    def fresh(self, prefix):
        self.fresh_n += 1
        return f"{prefix}${self.fresh_n}"

    def sync_side(self):
        side = self.ctx.side
        if self.nside < len(side):
            self.solver.add(side[self.nside:])
            self.nside = len(side)

    def feasible(self, cond):
        self.sync_side()
        self.solver.push()
        self.solver.add(cond)
        # first a short attempt with the integer encoding; a model that is hard to find there is usually
        # found quickly by the exact bit-vector back end below (measured: 20 s timeouts vs. 7-28 s)
        # (the assertion list is read BEFORE check(): afterwards z3 may hand back internal skolems such as mod!N)
        assertions = list(self.solver.assertions())
        self.solver.set("timeout", min(self.timeout_ms, self.feas_first_ms))
        r = self.solver.check()
        self.solver.set("timeout", self.timeout_ms)
        if r == z3.unknown and not self._bv_translatable(assertions):
            r = self.solver.check()
        if r != z3.unknown:
            assertions = None
        self.solver.pop()
        if r == z3.unknown:
            # second back end (fixed-width bit-vectors, exact for bounded integers)
            import bvquery
            st, info = bvquery.check_bv(assertions, timeout_ms=max(self.timeout_ms, 60000))
            if st == "unsat":
                return False
            if st == "sat":
                return True
            raise Unsupported(f"solver unknown on branch feasibility: LIA {self.solver.reason_unknown()}; BV {info}")
        return r == z3.sat

    def _bv_translatable(self, assertions):
        import bvquery
        try:
            tr = bvquery.Translator(bvquery.collect_bounds(assertions), 160)
            for a in assertions:
                tr.t(a)
            return True
        except bvquery.Refuse:
            return False

    def decide(self, cond):
        """branch on a (possibly symbolic) boolean; returns python bool"""
        if isinstance(cond, bool):
            return cond
        cond = z3.simplify(cond)
        if z3.is_true(cond):
            return True
        if z3.is_false(cond):
            return False
        k = len(self.trail)
        if k < len(self.prefix):
            taken = self.prefix[k]
        elif getattr(self, "lazy_feasibility", False):
            # fork without asking the solver; infeasible paths are discarded by the caller's
            # satisfiability check of the final path condition
            taken = True
            self.new_alts.append(list(self.trail) + [False])
        else:
            t_ok = self.feasible(cond)
            # the path so far is feasible (invariant of the exploration), so if cond cannot hold its negation can
            f_ok = self.feasible(z3.Not(cond)) if t_ok else True
            if t_ok and f_ok:
                taken = True
                self.new_alts.append(list(self.trail) + [False])
            elif t_ok:
                taken = True
            elif f_ok:
                taken = False
            else:
                raise Panic("infeasible path reached", kind="infeasible")
        self.trail.append(taken)
        c = cond if taken else z3.Not(cond)
        self.pc.append(c)
        self.sync_side()
        self.solver.add(c)
        return taken

    def assume(self, cond):
        if isinstance(cond, bool):
            if not cond:
                raise Panic("assumption false", kind="infeasible")
            return
        self.pc.append(cond)
        self.sync_side()
        self.solver.add(cond)

    # ---- name resolution ---------------------------------------------------------------------------
    def resolve(self, callee):
        if callee in self._resolve_cache:
            return self._resolve_cache[callee]
        r = None
        if callee in self.fns:
            r = callee
        else:
            base = strip_generics(callee)
            last = last_segment(base)
            cands = self.by_last.get(last, [])
            if len(cands) == 1:
                r = cands[0]
            elif cands:
                segs = [s for s in re.split(r"::", re.sub(r"<[^<>]*>", "", base)) if s and s != last]
                scored = []
                for c in cands:
                    score = sum(1 for s in segs if s.lower() in c.lower())
                    # `Type::method`: the type shows up as receiver (first argument) or, for
                    # constructors, as the return type of the definition
                    f = self.fns[c]
                    sig = (f.args[0][1] if f.args else "") + " -> " + (f.ret or "")
                    score += sum(2 for s in segs if s and re.search(r"\b%s\b" % re.escape(s), sig))
                    scored.append((score, c))
                scored.sort(reverse=True)
                if len(scored) > 1 and scored[0][0] == scored[1][0]:
                    r = None
                else:
                    r = scored[0][1]
        self._resolve_cache[callee] = r
        return r

    # ---- calls ---------------------------------------------------------------------------------------
    def call(self, callee, args, dest_ty=None):
        for rx, h in self.natives:
            m = rx.fullmatch(callee) if hasattr(rx, "fullmatch") else None
            if m:
                return h(self, args, dest_ty, m)
        name = self.resolve(callee)
        if name is None:
            raise Unsupported(f"call to unknown function `{callee}`")
        return self.run_fn(self.fns[name].parsed(), args)

    def run_fn(self, fn, args):
        frame = {}
        for (n, ty), a in zip(fn.args, args):
            frame[n] = a
        bb = 0
        steps = 0
        while True:
            steps += 1
            if steps > 20000:
                raise Unsupported(f"step limit in {fn.name}")
            stmts, term = fn.blocks[bb]
            for st in stmts:
                if st[0] == "assign":
                    v = self.rvalue(fn, frame, st[2], self.place_type(fn, st[1]))
                    self.store(fn, frame, st[1], v)
                elif st[0] == "setdiscr":
                    cur = self.load(fn, frame, st[1])
                    if isinstance(cur, En):
                        cur.variant = st[2]
                    else:
                        self.store(fn, frame, st[1], En(st[2], []))
            k = term[0]
            if k == "goto":
                bb = term[1]
            elif k == "return":
                return frame.get(0, UNIT)
            elif k == "unreachable":
                raise Panic(f"unreachable in {fn.name}", kind="unreachable")
            elif k == "switch":
                v = self.operand(fn, frame, term[1])
                bb = self.switch(v, term[2], term[3])
            elif k == "assert" and self.overflow_wrap and term[3].startswith('"attempt to compute'):
                # release semantics: arithmetic overflow wraps (the checked-op tuple already holds
                # the wrapped value); recorded so that no-panic checks can look at it
                bb = term[4]
            elif k == "assert":
                c = self.operand(fn, frame, term[1])
                cond = self.as_bool(c)
                want = cond if term[2] else (not cond if isinstance(cond, bool) else z3.Not(cond))
                if self.decide(want):
                    bb = term[4]
                else:
                    raise Panic(f"assert failed in {short(fn.name)}: {term[3][:80]}", kind="panic")
            elif k == "drop":
                bb = term[2]
            elif k == "call":
                _, dest, callee, cargs, ret = term
                vals = [self.operand(fn, frame, a) for a in cargs]
                r = self.call(callee, vals, self.place_type(fn, dest))
                if ret is None:
                    raise Panic(f"diverging call {callee}", kind="panic")
                self.store(fn, frame, dest, r)
                bb = ret
            else:
                raise Unsupported(f"terminator {term}")

    def switch(self, v, cases, other):
        if isinstance(v, bool):
            v = 1 if v else 0
        if isinstance(v, I):
            v = v.v
        if isinstance(v, z3.BoolRef):
            # cases on a bool: 0 -> false
            for c, b in cases:
                if c == 0:
                    if self.decide(z3.Not(v)):
                        return b
                elif c == 1:
                    if self.decide(v):
                        return b
            if other is None:
                raise Panic("switch fell through", kind="unreachable")
            return other
        if isinstance(v, int):
            for c, b in cases:
                if c == v:
                    return b
            if other is None:
                raise Panic("switch fell through", kind="unreachable")
            return other
        if is_sym(v):
            for c, b in cases:
                if self.decide(v == c):
                    return b
            if other is None:
                raise Panic("switch fell through", kind="unreachable")
            return other
        raise Unsupported(f"switchInt on {v!r}")

    # ---- places ------------------------------------------------------------------------------------
    def place_type(self, fn, place):
        k = place[0]
        if k == "local":
            return fn.locals.get(place[1])
        if k == "field":
            return place[3]
        return None

    def slot(self, fn, frame, place, create=True):
        """returns (box, key) so that box[key] is the place's storage"""
        k = place[0]
        if k == "local":
            return frame, place[1]
        if k == "deref":
            r = self.load(fn, frame, place[1])
            if isinstance(r, Ref):
                return r.box, r.key
            # Box / smart pointers modelled transparently
            b, key = self.slot(fn, frame, place[1])
            return b, key
        if k == "field":
            base = self.load_container(fn, frame, place[1], place)
            return base, place[2]
        if k == "downcast":
            b, key = self.slot(fn, frame, place[1])
            v = b[key]
            if isinstance(v, En):
                return DowncastBox(v), "fields"
            raise Unsupported(f"downcast of {v!r}")
        if k == "index":
            base = self.load(fn, frame, place[1])
            idx = frame[place[2]]
            i = idx.v if isinstance(idx, I) else idx
            if hasattr(base, "index_box"):
                return base.index_box(self, i)
            if is_sym(i):
                if isinstance(base, list):
                    return SymIndexBox(self, base, i), 0
                raise Unsupported("symbolic index")
            if hasattr(base, "index_box"):
                return base.index_box(self, i)
            if i >= len(base):
                raise Panic(f"index out of bounds {i} >= {len(base)} in {short(fn.name)}")
            return base, i
        if k == "constindex":
            base = self.load(fn, frame, place[1])
            i = place[2]
            if place[3]:
                i = len(base) - i
            return base, i
        raise Unsupported(f"place {place}")

    def load_container(self, fn, frame, place, field_place):
        b, key = self.slot(fn, frame, place)
        if isinstance(b, DowncastBox):
            return b.en.fields_box()
        try:
            v = b[key]
        except (KeyError, IndexError):
            v = None
        if v is None:
            v = Struct()
            b[key] = v
        if isinstance(v, En):
            return v.fields_box() if hasattr(v, "fields_box") else EnFields(v)
        if hasattr(v, "field_box"):
            return v.field_box(self, field_place[2], field_place[3])
        return v

    def load(self, fn, frame, place):
        b, key = self.slot(fn, frame, place)
        try:
            return b[key]
        except (KeyError, IndexError):
            raise Unsupported(f"read of uninitialised place {place} in {short(fn.name)}")

    def store(self, fn, frame, place, v):
        b, key = self.slot(fn, frame, place)
        b[key] = v

    # ---- operands / rvalues ----------------------------------------------------------------------------
    def operand(self, fn, frame, op):
        k = op[0]
        if k in ("copy", "move"):
            v = self.load(fn, frame, op[1])
            return clone(v) if isinstance(v, (list, Struct, En)) else v
        if k == "const":
            return self.const(op[1])
        if k == "fnptr":
            return Opaque(("fnptr", op[1]))
        raise Unsupported(f"operand {op}")

    def const(self, text):
        m = mp.CONST_INT.match(text)
        if m:
            return I(int(m.group(1)), m.group(2))
        if text == "true":
            return True
        if text == "false":
            return False
        if text == "()":
            return UNIT
        if text in self.consts:
            c = self.consts[text]
            return c(self) if callable(c) else c
        # promoted constant / named const defined in the dump
        name = self.resolve_const(text)
        if name is not None:
            return self.run_fn(self.fns[name].parsed(), [])
        if text.startswith('"') or text.startswith('b"'):
            return Opaque(("str", text))
        m = re.fullmatch(r"(.*) as (\w+) \(IntToInt\)", text)
        if m:
            inner = self.const(m.group(1))
            return self.cast_int(inner, m.group(2))
        if text.startswith("{") or "::<" in text or text.endswith("}"):
            return Opaque(("const", text))
        raise Unsupported(f"const {text}")

    def resolve_const(self, text):
        if text in self.fns:
            return text
        if "::promoted[" in text and "::<" in text:
            # promoted constant of a generic function: the definition is printed without the type arguments
            stripped = re.sub(r"::<[A-Za-z0-9_, ]*>", "", text)  # plain type parameters only (not `::<impl at ..>`)
            r = self.resolve_const(stripped) if stripped != text else None
            if r is not None:
                return r
        m = re.fullmatch(r"(.*)::promoted\[(\d+)\]", text)
        if m:
            want = last_segment(m.group(1)) + f"::promoted[{m.group(2)}]"
            cands = [n for n in self.fns if n.endswith(want)]
            if len(cands) == 1:
                return cands[0]
            # disambiguate by module path
            segs = m.group(1).split("::")
            for c in cands:
                if all(s in c for s in segs[-2:]):
                    return c
            # `module::Type::method` at the use site is `module::<impl at file.rs..>::method` at the definition
            if len(segs) >= 3:
                sel = [c for c in cands if (segs[-3] + "::<impl at") in c or (segs[-3] + ".rs") in c]
                if len(sel) == 1:
                    return sel[0]
            return None
        last = last_segment(text)
        cands = [n for n in self.by_last.get(last, []) if getattr(self.fns[n], "is_const", False)]
        if len(cands) == 1:
            return cands[0]
        # definitions are printed with a shorter path than uses: match by path suffix
        best = [n for n in cands if text.endswith(n)]
        if len(best) == 1:
            return best[0]
        return None

    def as_bool(self, v):
        if isinstance(v, (bool, z3.BoolRef)):
            return v
        if isinstance(v, I):
            return v.v != 0
        raise Unsupported(f"bool of {v!r}")

    def cast_int(self, v, ty):
        if isinstance(v, bool):
            v = I(1 if v else 0, "u8")
        if isinstance(v, z3.BoolRef):
            v = I(z3.If(v, 1, 0), "u8")
        if not isinstance(v, I):
            raise Unsupported(f"int cast of {v!r}")
        bits = INT_BITS[ty]
        src_bits = INT_BITS[v.ty]
        if ty.startswith("i") or v.ty.startswith("i"):
            if isinstance(v.v, int):
                x = v.v % (1 << bits)
                if ty.startswith("i") and x >= 1 << (bits - 1):
                    x -= 1 << bits
                return I(x, ty)
            raise Unsupported("symbolic signed cast")
        if isinstance(v.v, int):
            return I(v.v % (1 << bits), ty)
        if bits >= src_bits:
            return I(v.v, ty)
        return I(v.v % (1 << bits), ty)

    def rvalue(self, fn, frame, rv, dest_ty):
        k = rv[0]
        if k == "use":
            return self.operand(fn, frame, rv[1])
        if k == "ref":
            b, key = self.slot(fn, frame, rv[1])
            return Ref(b, key)
        if k == "binop":
            a = self.operand(fn, frame, rv[2])
            b = self.operand(fn, frame, rv[3])
            return self.binop(rv[1], a, b, dest_ty)
        if k == "unop":
            a = self.operand(fn, frame, rv[2])
            if rv[1] == "Not":
                if isinstance(a, bool):
                    return not a
                if isinstance(a, z3.BoolRef):
                    return z3.Not(a)
                if isinstance(a, I):
                    bits = INT_BITS[a.ty]
                    return I(((1 << bits) - 1) - a.v, a.ty)
            if rv[1] == "PtrMetadata":
                if isinstance(a, Ref):
                    a = a.get()
                return I(len(a), "usize")
            raise Unsupported(f"unop {rv[1]} on {a!r}")
        if k == "cast":
            a = self.operand(fn, frame, rv[1])
            kind = rv[3]
            if kind == "IntToInt":
                return self.cast_int(a, rv[2])
            if kind.startswith("PointerCoercion") or kind in ("Transmute", "PtrToPtr"):
                return a
            raise Unsupported(f"cast {kind}")
        if k == "tuple":
            return [self.operand(fn, frame, x) for x in rv[1]]
        if k == "array":
            return [self.operand(fn, frame, x) for x in rv[1]]
        if k == "repeat":
            v = self.operand(fn, frame, rv[1])
            n = self.const(rv[2]) if not rv[2].isdigit() else I(int(rv[2]), "usize")
            return [clone(v) for _ in range(n.v)]
        if k == "discriminant":
            v = self.load(fn, frame, rv[1])
            return self.discriminant(v)
        if k == "len":
            v = self.load(fn, frame, rv[1])
            return I(len(v), "usize")
        if k == "variant":
            args = [self.operand(fn, frame, x) for x in rv[2]]
            return self.make_variant(rv[1], args)
        if k == "struct":
            s = Struct()
            s.name = rv[1]
            for i, (fname, op) in enumerate(rv[2]):
                s[fname if not fname.isdigit() else int(fname)] = self.operand(fn, frame, op)
            # MIR prints fields by name; projections use indices -> keep declaration order as index too
            for i, (fname, op) in enumerate(rv[2]):
                s[i] = s[fname if not fname.isdigit() else int(fname)]
            return s
        raise Unsupported(f"rvalue {rv}")

    def make_variant(self, name, args):
        vn = last_segment(strip_generics(name))
        return En(vn, args, ty=name)

    def discriminant(self, v):
        if isinstance(v, En):
            d = self.variant_index(v)
            return I(d, "isize")
        if hasattr(v, "discriminant"):
            return v.discriminant(self)
        raise Unsupported(f"discriminant of {v!r}")

    def variant_index(self, en):
        if isinstance(en.variant, int):
            return en.variant
        table = self.consts.get("enum_variants", {})
        for key in ("Ok", "Err", "Some", "None"):
            pass
        std = {"None": 0, "Some": 1, "Ok": 0, "Err": 1, "Continue": 0, "Break": 1}
        if en.variant in std:
            return std[en.variant]
        for ename, variants in table.items():
            if en.variant in variants and (en.ty is None or ename in en.ty or en.ty.endswith(en.variant)):
                return variants.index(en.variant)
        raise Unsupported(f"unknown enum variant index for {en.variant} ({en.ty})")

    # ---- integer arithmetic ----------------------------------------------------------------------------
    def binop(self, op, a, b, dest_ty):
        if isinstance(a, (bool, z3.BoolRef)) or isinstance(b, (bool, z3.BoolRef)):
            if op in ("Eq", "Ne", "BitAnd", "BitOr", "BitXor"):
                za = a if isinstance(a, z3.BoolRef) else z3.BoolVal(bool(a))
                zb = b if isinstance(b, z3.BoolRef) else z3.BoolVal(bool(b))
                r = {"Eq": za == zb, "Ne": za != zb, "BitAnd": z3.And(za, zb), "BitOr": z3.Or(za, zb), "BitXor": z3.Xor(za, zb)}[op]
                r = z3.simplify(r)
                return True if z3.is_true(r) else False if z3.is_false(r) else r
        if not (isinstance(a, I) and isinstance(b, I)):
            raise Unsupported(f"binop {op} on {a!r}, {b!r}")
        ty = a.ty
        bits = INT_BITS[ty]
        mod = 1 << bits
        signed = ty.startswith("i")
        x, y = a.v, b.v
        conc = isinstance(x, int) and isinstance(y, int)
        if signed and not conc:
            raise Unsupported("symbolic signed arithmetic")
        if op in ("Eq", "Ne", "Lt", "Le", "Gt", "Ge"):
            r = {"Eq": x == y, "Ne": x != y, "Lt": x < y, "Le": x <= y, "Gt": x > y, "Ge": x >= y}[op]
            if isinstance(r, z3.BoolRef):
                r = z3.simplify(r)
                return True if z3.is_true(r) else False if z3.is_false(r) else r
            return bool(r)
        if op in ("Add", "Sub", "Mul", "AddUnchecked", "SubUnchecked", "MulUnchecked"):
            raw = {"A": lambda: x + y, "S": lambda: x - y, "M": lambda: self.imul(x, y)}[op[0]]()
            return I(self.wrap(raw, bits, signed), ty)
        if op in ("AddWithOverflow", "SubWithOverflow", "MulWithOverflow"):
            raw = {"A": lambda: x + y, "S": lambda: x - y, "M": lambda: self.imul(x, y)}[op[0]]()
            if conc:
                lo, hi = (-(mod >> 1), (mod >> 1) - 1) if signed else (0, mod - 1)
                return [I(self.wrap(raw, bits, signed), ty), not (lo <= raw <= hi)]
            ovf = z3.Or(raw < 0, raw >= mod)
            return [I(self.wrap(raw, bits, signed), ty), ovf]
        if op in ("Div", "Rem"):
            if conc:
                if y == 0:
                    raise Panic("division by zero")
                return I(x // y if op == "Div" else x % y, ty)
            q, r = self.divrem(x, y)
            return I(q if op == "Div" else r, ty)
        if op in ("Shr", "ShrUnchecked", "Shl", "ShlUnchecked") and not isinstance(y, int):
            # symbolic shift amount (0 <= y < bits is established by the overflow assert MIR emits):
            # multiplication / division by 2^y through an ite-chain
            xv = x if not isinstance(x, int) else z3.IntVal(x)
            # ite-chain over the shift amount with a constant factor in every branch (linear)
            if op.startswith("Shr"):
                t = xv / (1 << (bits - 1))
                for j in range(bits - 2, -1, -1):
                    t = z3.If(y == j, xv / (1 << j), t)
                return I(t, ty)
            t = (xv * (1 << (bits - 1))) % mod
            for j in range(bits - 2, -1, -1):
                t = z3.If(y == j, (xv * (1 << j)) % mod, t)
            return I(t, ty)
        if op in ("Shr", "ShrUnchecked", "Shl", "ShlUnchecked"):
            if op.startswith("Shr"):
                return I(x >> y if conc else x / (1 << y), ty)
            return I(self.wrap(x * (1 << y), bits, signed), ty)
        if op in ("BitAnd", "BitOr", "BitXor"):
            if conc:
                return I({"BitAnd": x & y, "BitOr": x | y, "BitXor": x ^ y}[op], ty)
            # mask with 2^k - 1 is a remainder
            for u, w in ((x, y), (y, x)):
                if op == "BitAnd" and isinstance(w, int) and (w & (w + 1)) == 0:
                    return I(u % (w + 1), ty)
            return I(self.bitop(op, x, y, bits), ty)
        raise Unsupported(f"binop {op}")

    def bitop(self, op, x, y, bits):
        """AND/OR/XOR of two symbolic non-negative integers through the uninterpreted function
        band(x,y) = x & y with sound facts about it: 0 <= band <= min(x,y); band = 0 when the
        operands occupy disjoint bit ranges split at one of the listed positions; band(x,x) = x.
        OR = x + y - band, XOR = x + y - 2 band.  The exact bit-vector definition is kept aside
        (ctx.exact_int) for validation runs on concrete inputs."""
        xv = x if is_sym(x) else z3.IntVal(x)
        yv = y if is_sym(y) else z3.IntVal(y)
        # operands in disjoint bit ranges (cheap syntactic interval / power-of-two-factor analysis):
        # x & y = 0 exactly, no uninterpreted function needed
        if self.disjoint_bits(xv, yv) or self.disjoint_bits(yv, xv):
            return {"BitAnd": z3.IntVal(0), "BitOr": xv + yv, "BitXor": xv + yv}[op]
        f = z3.Function("band", z3.IntSort(), z3.IntSort(), z3.IntSort())
        a = f(xv, yv)
        splits = sorted(set(list(range(7, bits, 7)) + [8, 16, 32]))
        ax = [f(xv, yv) == f(yv, xv), a >= 0, a <= xv, a <= yv, z3.Implies(xv == yv, a == xv),
              z3.Implies(z3.Or(xv == 0, yv == 0), a == 0)]
        for k in splits:
            if k < bits:
                ax.append(z3.Implies(z3.Or(z3.And(xv < (1 << k), yv % (1 << k) == 0), z3.And(yv < (1 << k), xv % (1 << k) == 0)), a == 0))
        self.ctx.side += ax
        if not hasattr(self.ctx, "exact_int"):
            self.ctx.exact_int = []
        self.ctx.exact_int.append(a == z3.BV2Int(z3.Int2BV(xv, bits) & z3.Int2BV(yv, bits)))
        return {"BitAnd": a, "BitOr": xv + yv - a, "BitXor": xv + yv - 2 * a}[op]

    def disjoint_bits(self, lo_part, hi_part):
        """True if 0 <= lo_part < 2^k and hi_part is a multiple of 2^k for some k (sound, incomplete)"""
        import bvquery
        key = len(self.pc)
        if getattr(self, "_bounds_key", None) != key:
            self._bounds = bvquery.collect_bounds(self.pc)
            self._bounds_key = key
        k = pow2_factor(hi_part)
        if k <= 0:
            return False
        iv = interval(lo_part, self._bounds)
        return iv is not None and iv[0] >= 0 and iv[1] < (1 << k)

    def wrap(self, raw, bits, signed=False):
        mod = 1 << bits
        if isinstance(raw, int):
            r = raw % mod
            if signed and r >= mod >> 1:
                r -= mod
            return r
        return raw % mod

    def imul(self, x, y):
        if isinstance(x, int) or isinstance(y, int):
            return x * y
        # symbolic * symbolic: integer product as an uninterpreted function with the envelope axioms
        # of a product of two non-negative integers below 2^64
        f = z3.Function("imul", z3.IntSort(), z3.IntSort(), z3.IntSort())
        r = f(x, y)
        if not hasattr(self.ctx, "exact_int"):
            self.ctx.exact_int = []
        self.ctx.exact_int.append(r == x * y)
        U = 2**32 - 1
        self.ctx.side += [f(x, y) == f(y, x), r >= 0, (r == 0) == z3.Or(x == 0, y == 0),
                          z3.Implies(x == 1, r == y), z3.Implies(y == 1, r == x),
                          z3.Implies(y >= 1, r >= x), z3.Implies(x >= 1, r >= y),
                          z3.Implies(z3.And(x <= U, y <= U), z3.And(r <= U * x, r <= U * y, r <= U * U))]
        return r

    def divrem(self, x, y):
        """q, r with x = q*y + r, 0 <= r < y (y != 0 is established by the caller's assert)"""
        q = z3.Int(self.fresh("q"))
        r = z3.Int(self.fresh("r"))
        prod = self.imul(q, y)
        self.ctx.side += [z3.And(q >= 0, q <= 2**64), z3.And(r >= 0, r <= 2**64), z3.Implies(y > 0, z3.And(r < y, x == prod + r, q <= x))]
        self.ctx.exact_int.append(z3.Implies(y > 0, z3.And(q == x / y, r == x % y)))
        return q, r


def pow2_factor(e):
    """largest k (capped at 4096) such that the integer term e is syntactically a multiple of 2^k"""
    BIG = 4096
    if z3.is_int_value(e):
        c = e.as_long()
        return BIG if c == 0 else (c & -c).bit_length() - 1
    if not z3.is_app(e):
        return 0
    k = e.decl().kind()
    ch = e.children()
    if k == z3.Z3_OP_MUL:
        return min(BIG, sum(pow2_factor(c) for c in ch))
    if k in (z3.Z3_OP_ADD, z3.Z3_OP_SUB):
        return min(pow2_factor(c) for c in ch)
    if k == z3.Z3_OP_UMINUS:
        return pow2_factor(ch[0])
    if k == z3.Z3_OP_ITE:
        return min(pow2_factor(ch[1]), pow2_factor(ch[2]))
    if k == z3.Z3_OP_MOD and z3.is_int_value(ch[1]):
        m = ch[1].as_long()
        if m > 0 and m & (m - 1) == 0:
            return min(pow2_factor(ch[0]), m.bit_length() - 1)
    return 0


def interval(e, bounds):
    """(lo, hi) of an integer term from variable bounds, or None"""
    if z3.is_int_value(e):
        c = e.as_long()
        return (c, c)
    if not z3.is_app(e):
        return None
    k = e.decl().kind()
    ch = e.children()
    if k == z3.Z3_OP_UNINTERPRETED:
        if e.num_args() == 0:
            lo, hi = bounds.get(e.decl().name(), [None, None])
            return None if lo is None or hi is None else (lo, hi)
        if e.decl().name() == "band":
            a, b = interval(ch[0], bounds), interval(ch[1], bounds)
            his = [x[1] for x in (a, b) if x is not None and x[0] >= 0]
            return (0, min(his)) if his else None
        return None
    sub = [interval(c, bounds) for c in ch]
    if k == z3.Z3_OP_MOD and z3.is_int_value(ch[1]) and ch[1].as_long() > 0:
        m = ch[1].as_long()
        if sub[0] is not None and sub[0][0] >= 0 and sub[0][1] < m:
            return sub[0]
        return (0, m - 1)
    if any(x is None for x in sub):
        return None
    if k == z3.Z3_OP_ADD:
        return (sum(x[0] for x in sub), sum(x[1] for x in sub))
    if k == z3.Z3_OP_SUB:
        lo, hi = sub[0]
        for x in sub[1:]:
            lo, hi = lo - x[1], hi - x[0]
        return (lo, hi)
    if k == z3.Z3_OP_UMINUS:
        return (-sub[0][1], -sub[0][0])
    if k == z3.Z3_OP_MUL:
        lo, hi = sub[0]
        for x in sub[1:]:
            c = [lo * x[0], lo * x[1], hi * x[0], hi * x[1]]
            lo, hi = min(c), max(c)
        return (lo, hi)
    if k == z3.Z3_OP_ITE:
        return (min(sub[1][0], sub[2][0]), max(sub[1][1], sub[2][1])) if sub[1] and sub[2] else None
    if k in (z3.Z3_OP_IDIV, z3.Z3_OP_DIV) and z3.is_int_value(ch[1]) and ch[1].as_long() > 0 and sub[0][0] >= 0:
        d = ch[1].as_long()
        return (sub[0][0] // d, sub[0][1] // d)
    return None


class SymIndexBox:
    """list element selected by a symbolic index: reads are ite-chains, writes update every element
    conditionally (the bounds check is the explicit assert MIR puts before the access)"""

    def __init__(self, interp, lst, idx):
        self.interp, self.lst, self.idx = interp, lst, idx

    def __getitem__(self, k):
        it, lst, idx = self.interp, self.lst, self.idx
        e0 = lst[0]
        if isinstance(e0, I):
            t = lst[-1].v if not isinstance(lst[-1].v, int) else z3.IntVal(lst[-1].v)
            for j in range(len(lst) - 2, -1, -1):
                v = lst[j].v if not isinstance(lst[j].v, int) else z3.IntVal(lst[j].v)
                t = z3.If(idx == j, v, t)
            return I(t, e0.ty)
        if isinstance(e0, F):
            name = it.fresh("sel")
            a = it.ctx.var(name)
            za = it.ctx.atoms[name]
            t = it.ctx.value(lst[-1].l)
            for j in range(len(lst) - 2, -1, -1):
                t = z3.If(idx == j, it.ctx.value(lst[j].l), t)
            it.ctx.side.append(za == t)
            return F(a)
        raise Unsupported(f"symbolic index into list of {type(e0).__name__}")

    def __setitem__(self, k, v):
        it, lst, idx = self.interp, self.lst, self.idx
        for j in range(len(lst)):
            old = lst[j]
            if isinstance(v, I):
                ov = old.v if not isinstance(old.v, int) else z3.IntVal(old.v)
                nv = v.v if not isinstance(v.v, int) else z3.IntVal(v.v)
                lst[j] = I(z3.If(idx == j, nv, ov), v.ty)
            elif isinstance(v, F):
                name = it.fresh("upd")
                a = it.ctx.var(name)
                za = it.ctx.atoms[name]
                it.ctx.side.append(za == z3.If(idx == j, it.ctx.value(v.l), it.ctx.value(old.l)))
                lst[j] = F(a)
            else:
                raise Unsupported(f"symbolic-index store of {type(v).__name__}")


class DowncastBox:
    """place (x as Variant): the following field projection indexes the variant's fields"""

    def __init__(self, en):
        self.en = en

    def __getitem__(self, k):
        return EnFields(self.en)

    def __setitem__(self, k, v):
        raise Unsupported("store to downcast")


class EnFields:
    def __init__(self, en):
        self.en = en

    def __getitem__(self, i):
        return self.en.fields[i]

    def __setitem__(self, i, v):
        while len(self.en.fields) <= i:
            self.en.fields.append(None)
        self.en.fields[i] = v


def _fields_box(self):
    return EnFields(self)


En.fields_box = _fields_box


class PathResult:
    def __init__(self, outcome, value, pc, ctx, events, models):
        self.outcome, self.value, self.pc, self.ctx, self.events, self.models = outcome, value, pc, ctx, events, models


def last_segment(name):
    # last '::' segment at angle-bracket depth 0
    depth = 0
    last = 0
    i = 0
    while i < len(name):
        ch = name[i]
        if ch == "<":
            depth += 1
        elif ch == ">" and not (i > 0 and name[i - 1] in "-="):
            depth -= 1
        elif ch == ":" and depth == 0 and name.startswith("::", i):
            last = i + 2
            i += 1
        i += 1
    return name[last:]


def strip_generics(name):
    """drop turbofish generic arguments `::<...>`"""
    out = []
    i = 0
    n = len(name)
    while i < n:
        if name.startswith("::<", i):
            depth = 0
            j = i + 2
            while j < n:
                if name[j] == "<":
                    depth += 1
                elif name[j] == ">" and name[j - 1] not in "-=":
                    depth -= 1
                    if depth == 0:
                        break
                j += 1
            i = j + 1
            continue
        out.append(name[i])
        i += 1
    return "".join(out)


def short(name):
    return last_segment(name)
