"""C04 (stack part): the real AIR, instantiated symbolically per opcode, forces every enforced cell
of the next row to the spec value.  One SMT query per (operation variant)."""
import os
import sys
import time

import z3

sys.path.insert(0, os.path.join(os.path.dirname(os.path.abspath(__file__)), "..", "lib"))
sys.path.insert(0, os.path.join(os.path.dirname(os.path.abspath(__file__)), "..", "spec"))
import airq  # noqa: E402
import airsolve  # noqa: E402
import ops as specmod  # noqa: E402
from common import log  # noqa: E402
from field import P, FieldCtx, Lin, eval_dag, load_dag  # noqa: E402

NIA_OPS = set()
SOLVER_TIMEOUT_MS = int(os.environ.get("VERIF_SOLVER_TIMEOUT_MS", "60000"))


def variants(meta):
    """(variant name, op name, extra constant cells of the current row)"""
    c = meta.cols
    out = []
    for name, o in meta.ops.items():
        if name == "End":
            base = {str(c["IS_LOOP_FLAG"]): 0, str(c["IS_CALL_FLAG"]): 0, str(c["IS_SYSCALL_FLAG"]): 0}
            out.append(("End", name, dict(base)))
            out.append(("End[loop]", name, dict(base, **{str(c["IS_LOOP_FLAG"]): 1})))
            out.append(("End[call]", name, dict(base, **{str(c["IS_CALL_FLAG"]): 1})))
            out.append(("End[syscall]", name, dict(base, **{str(c["IS_SYSCALL_FLAG"]): 1})))
        else:
            out.append((name, name, {}))
        if name == "U32div":
            out.append(("U32div[rem<2^32]", name, {}))
    return out


def extract(meta):
    vs = variants(meta)
    jobs = []
    for vname, oname, extra in vs:
        cur = meta.opcode_consts(meta.ops[oname]["opcode"])
        cur.update(extra)
        jobs.append({"kind": "transition", "name": vname, "cur": cur, "next": {}, "per": {}})
    res = airq.run_jobs(jobs, "c04_stack")
    return {r["name"]: (r, jobs[i]) for i, r in enumerate(res)}


def support(arena, root, memo):
    """set of variable names a DAG root depends on"""
    if "c" in root:
        return frozenset()

    def go(i):
        stack = [i]
        while stack:
            j = stack[-1]
            if j in memo:
                stack.pop()
                continue
            n = arena[j]
            if n[0] == "var":
                memo[j] = frozenset([n[1]])
                stack.pop()
                continue
            deps = [a["n"] for a in n[1:] if "n" in a and a["n"] not in memo]
            if deps:
                stack.extend(deps)
                continue
            s = frozenset()
            for a in n[1:]:
                if "n" in a:
                    s |= memo[a["n"]]
            memo[j] = s
            stack.pop()
        return memo[i]

    return go(root["n"])


def stack_system_roots(meta, r):
    """indices of constraints that do not touch range-checker / chiplet cells (system + stack)"""
    c = meta.cols
    memo = {}
    idx = []
    lim = c["RANGE_M"]
    for i, root in enumerate(r["roots"]):
        sup = support(r["arena"], root, memo)
        cols = [int(v[1:]) for v in sup if v[0] in "cn" and v[1:].isdigit()]
        if any(x >= lim for x in cols) or any(v.startswith("k") for v in sup):
            continue
        if "c" in root and int(root["c"]) == 0:
            continue
        idx.append(i)
    return idx


class OpQuery:
    def __init__(self, meta, vname, r, job):
        self.meta, self.vname, self.r, self.job = meta, vname, r, job
        c = meta.cols
        self.ctx = ctx = FieldCtx(u32_axiom=True, nia=(vname in NIA_OPS))
        self.idx = stack_system_roots(meta, r)
        self.roots = load_dag(ctx, r["arena"], [r["roots"][i] for i in self.idx])
        st = c["STACK"]

        def cell(prefix, col):
            return ctx.var(f"{prefix}{col}")

        s = [cell("c", st + i) for i in range(16)]
        n = [cell("n", st + i) for i in range(16)]
        cells = dict(
            b0=cell("c", c["B0"]), b1=cell("c", c["B1"]), h0=cell("c", c["H0"]),
            b0n=cell("n", c["B0"]), b1n=cell("n", c["B1"]),
            clk=cell("c", c["CLK"]), clkn=cell("n", c["CLK"]),
            fmp=cell("c", c["FMP"]), fmpn=cell("n", c["FMP"]),
            hp=[cell("c", c["USER_OP_HELPERS"] + i) for i in range(c["NUM_USER_OP_HELPERS"])],
        )
        self.S = specmod.S(ctx, s, n, cells)
        self.spec = specmod.SPEC[vname](self.S)

    def build(self):
        """returns (assumptions: [Bool], posts: [(label, Bool)])"""
        S, ctx, sp = self.S, self.ctx, self.spec
        assume = [ctx.is_zero(r) for r in self.roots]
        pre, posts, self.pre_labels = specmod.posts_from_spec(S, sp, rc16_assumed=True)
        return assume + pre, posts


def check_variant(meta, vname, r, job, rng=None):
    """returns dict(status= 'unsat'|'sat'|'unknown'|'vacuous', failing=[(label, env)], unknown=[...])"""
    t0 = time.time()
    q = OpQuery(meta, vname, r, job)
    assume, posts = q.build()
    ctx = q.ctx
    s = z3.Solver()
    s.set("timeout", SOLVER_TIMEOUT_MS)
    s.add(ctx.side)
    s.add(assume)
    out = dict(q=q, posts=len(posts), nconstraints=len(q.idx), failing=[], unknown=[], labels=[l for l, _ in posts])
    # vacuity witness: the assumptions themselves must be satisfiable
    vac = s.check()
    if vac == z3.unsat:
        out.update(status="vacuous", secs=time.time() - t0)
        return out
    if vac != z3.sat:
        out.update(status="unknown", secs=time.time() - t0, unknown=[("vacuity witness", s.reason_unknown())])
        return out
    if rng is not None:
        ok, env = airsolve.selftest_axioms(ctx, rng, samples=3)
        if not ok:
            out.update(status="unknown", secs=time.time() - t0, unknown=[("axiom self-test failed", str(env))])
            return out
    for label, b in posts:
        st, info = airsolve.decide(ctx, s, assume, b)
        if st == "sat":
            out["failing"].append((label, info))
        elif st != "unsat":
            out["unknown"].append((label, info))
    out["status"] = "sat" if out["failing"] else ("unknown" if out["unknown"] else "unsat")
    out["secs"] = time.time() - t0
    return out


def concrete_rows(meta, job, env):
    """full concrete cur/next rows (lists of ints) from a model environment"""
    W = meta.W
    cur = [env.get(f"c{i}", 0) for i in range(W)]
    nxt = [env.get(f"n{i}", 0) for i in range(W)]
    for k, v in job["cur"].items():
        cur[int(k)] = int(v)
    return cur, nxt


if __name__ == "__main__":
    meta = airq.get_meta()
    ex = extract(meta)
    only = sys.argv[1:]
    for vname, (r, job) in ex.items():
        if only and vname not in only:
            continue
        if vname not in specmod.SPEC:
            print(vname, "NO SPEC")
            continue
        res = check_variant(meta, vname, r, job)
        print(f"{vname:14s} {res['status']:8s} {res['secs']:.2f}s posts={res.get('posts')} ncons={res.get('nconstraints')} failing={[l for l, _ in res['failing']]} unknown={res.get('unknown')}")


def describe(meta, env):
    c = meta.cols
    names = {}
    for i in range(16):
        names[f"c{c['STACK']+i}"] = f"s{i}"
        names[f"n{c['STACK']+i}"] = f"s{i}'"
    for k, v in [("B0", "b0"), ("B1", "b1"), ("H0", "h0"), ("CLK", "clk"), ("FMP", "fmp")]:
        names[f"c{c[k]}"] = v
        names[f"n{c[k]}"] = v + "'"
    for i in range(6):
        names[f"c{c['USER_OP_HELPERS']+i}"] = f"hp{i}"
    return {names.get(k, k): v for k, v in sorted(env.items()) if v != 0}
