"""C15 — the cycle limit is enforced exactly.
[C] every path of Process::execute_op (MIR): the operation fails with CycleLimitExceeded(max) exactly
    when clk + 1 > max_cycles, otherwise clk' = clk + 1; this is the one-step induction over cycles
    (arbitrary symbolic clk and limit).  Process::initialize passes ExecutionOptions::max_cycles()
    unchanged into the process.
[B] Kani: ExecutionOptions::new over all inputs (expected <= 2^31): Ok <=> max >= 64 and max >= expected,
    max_cycles() = requested max; first clock advances of the real System."""
import os
import random
import sys
import time

import z3

sys.path.insert(0, os.path.dirname(os.path.abspath(__file__)))
import procops  # noqa: E402
from procops import CONTROL, airq, classify, mirsym, opsum, pm, run_op  # noqa: E402
import kani  # noqa: E402
from common import REPO, Verdict, log, repo_fingerprint, save_replay, seed, tier, write_evidence  # noqa: E402
from mir_parse import Unsupported  # noqa: E402
from mirsym import En, I, Opaque, Struct  # noqa: E402

PROP = "C15"
OPS_QUICK = ["Noop", "Add", "Drop", "Pad", "Assert", "U32add", "Swap", "Push", "Eq", "MovUp2"]


def check_limit(meta, interp, name, V, cov):
    try:
        paths = run_op(interp, meta, name, 0)
    except Unsupported as e:
        V.add(f"limit:{name}", "not-covered", detail=str(e))
        return
    clk, maxc = z3.Int("clk"), z3.Int("max_cycles")
    seen_limit = False
    for pi, res in enumerate(paths):
        kind, detail = classify(res)
        s = z3.Solver()
        s.set("timeout", 20000)
        s.add(res.ctx.side)
        s.add(res.pc)
        cov["queries"] += 1
        if kind == "ok":
            after = res.info["clk_int_after"]
            goal = z3.And(clk + 1 <= maxc, after == clk + 1)
            label = "ok path => clk+1 <= max and clk' = clk+1"
        elif kind == "err" and getattr(detail, "variant", "") == "CycleLimitExceeded":
            seen_limit = True
            payload = detail.fields[0].v
            goal = z3.And(clk + 1 > maxc, payload == maxc)
            label = "CycleLimitExceeded(max) => clk+1 > max"
        else:
            continue
        s.add(z3.Not(goal))
        r = s.check()
        oname = f"limit:{name}#p{pi}:{label}"
        if r == z3.unsat:
            V.add(oname, "discharged")
        elif r == z3.sat:
            m = s.model()
            cv, mv = m.eval(clk, model_completion=True).as_long(), m.eval(maxc, model_completion=True).as_long()
            path = save_replay(PROP, f"limit_{name}_{pi}", dict(kind="cycle_limit", op=name, clk=cv, max_cycles=mv, path_kind=kind))
            V.violation(oname, path, f"{name}: with clk={cv}, max_cycles={mv} the processor takes the {kind} path", key=f"limit:{label.replace(' ', '')}")
        else:
            V.add(oname, "inconclusive", detail="solver unknown")
    if not seen_limit:
        # every operation must be able to hit the limit (the limit path exists from every state)
        V.violation(f"limit:{name}:limit-path-exists", save_replay(PROP, f"nolimit_{name}", dict(op=name)),
                    f"{name}: no path of execute_op returns CycleLimitExceeded", key="limit:no-limit-path")
    else:
        V.add(f"limit:{name}:limit-path-exists", "discharged")


def check_initialize(interp, V, cov):
    """Process::initialize: the process's max_cycles is ExecutionOptions::max_cycles() of the argument"""
    import opsum as _o
    names = _o.struct_fields(os.path.join(REPO, "air/src/options.rs"), "ExecutionOptions")
    mc = I(z3.Int("opt_max"), "u32")
    ec = I(z3.Int("opt_expected"), "u32")

    def make_run(it):
        it.begin_run(None)
        it.assume(z3.And(mc.v >= 0, mc.v < 2**32, ec.v >= 0, ec.v < 2**32))
        opts = Struct()
        for i, n in enumerate(names):
            opts[i] = {"max_cycles": mc, "expected_cycles": ec}.get(n, z3.Bool("opt_tracing"))
        return lambda: it.call("<impl at processor/src/lib.rs>::initialize", [Opaque("kernel"), Opaque("inputs"), Opaque("host"), False, opts])

    nat = [
        (r"ExecutionOptions::max_cycles", lambda it, a, d, m: pm.deref(a[0])[names.index("max_cycles")]),
        (r"ExecutionOptions::expected_cycles", lambda it, a, d, m: pm.deref(a[0])[names.index("expected_cycles")]),
        (r"ExecutionOptions::enable_tracing", lambda it, a, d, m: pm.deref(a[0])[names.index("enable_tracing")]),
        (r"system::System::new|Decoder::new|Stack::new|RangeChecker::new|Chiplets::new|RefCell::<H>::new", lambda it, a, d, m: Opaque(m.group(0))),
    ]
    import re
    saved = interp.natives
    interp.natives = [(re.compile(p), h) for p, h in nat] + saved
    try:
        fn = [n for n in interp.fns if n.endswith("::initialize") and "processor/src/lib.rs" in n]
        if len(fn) != 1:
            V.add("initialize:max_cycles", "inconclusive", detail=f"Process::initialize not found uniquely: {fn}")
            return

        def make_run2(it):
            thunk0 = make_run(it)
            return lambda: it.run_fn(it.fns[fn[0]].parsed(), [Opaque("kernel"), Opaque("inputs"), Opaque("host"), False,
                                                                _opts(names, mc, ec)])
        paths = interp.explore(make_run2)
    except Unsupported as e:
        V.add("initialize:max_cycles", "inconclusive", detail=str(e))
        return
    finally:
        interp.natives = saved
    pnames = _o.struct_fields(os.path.join(REPO, "processor/src/lib.rs"), "Process")
    for res in paths:
        proc = res.value
        got = proc["max_cycles"] if "max_cycles" in proc else proc[pnames.index("max_cycles")]
        s = z3.Solver()
        s.add(res.pc)
        s.add(z3.Not(got.v == mc.v) if isinstance(got, I) else z3.BoolVal(True))
        cov["queries"] += 1
        if isinstance(got, I) and s.check() == z3.unsat:
            V.add("initialize:max_cycles = options.max_cycles()", "discharged")
        else:
            path = save_replay(PROP, "initialize", dict(kind="initialize", got=str(got)))
            V.violation("initialize:max_cycles", path, f"Process::initialize stores {got} as max_cycles instead of the option's value", key="initialize:max_cycles")


def _opts(names, mc, ec):
    opts = Struct()
    for i, n in enumerate(names):
        opts[i] = {"max_cycles": mc, "expected_cycles": ec}.get(n, z3.Bool("opt_tracing"))
    return opts


def check_kani(V, cov):
    kani.prepare()
    hs = ["c15_options_new"] + (["c15_advance_clock_first_steps"] if tier() == "thorough" else [])
    for h in hs:
        r = kani.run_harness(h, timeout_s=900)
        cov["kani"].append(dict(harness=h, status=r["status"], secs=round(r["secs"], 1), covers=r["covers"]))
        if r["status"] == "success":
            V.add(f"kani:{h}", "discharged", r["secs"], detail=f"covers {r['covers']}")
        elif r["status"] == "failed":
            rep, text = kani.playback(h)
            path = save_replay(PROP, f"kani_{h}", dict(kind="kani", harness=h, failed_checks=r["failed_checks"], playback=text))
            if rep:
                V.violation(f"kani:{h}", path, f"{h}: {[f['desc'] for f in r['failed_checks']][:3]} (reproduced by concrete playback)",
                            key=f"kani:{h}:" + "+".join(sorted({f['desc'][:40].replace(' ', '_') for f in r['failed_checks']})))
            else:
                V.add(f"kani:{h}", "inconclusive", detail=f"failed checks {r['failed_checks'][:3]} but playback did not reproduce: {text[-300:]}")
        else:
            V.add(f"kani:{h}", "inconclusive", r["secs"], detail=f"{r['status']}: {r['log'][-300:]}")


def main():
    t0 = time.time()
    V = Verdict(PROP)
    meta = airq.get_meta()
    interp = opsum.make_interp()
    cov = dict(queries=0, kani=[])
    names = OPS_QUICK if tier() == "quick" else [n for n in meta.ops if n not in CONTROL]
    for n in names:
        check_limit(meta, interp, n, V, cov)
    check_initialize(interp, V, cov)
    check_kani(V, cov)
    c = V.counts()
    coverage = dict(
        states=len(V.obligations), transitions=c.get("discharged", 0), traces_validated_against_impl=0,
        samples=V.obligations[:4] + [o for o in V.obligations if o["status"] != "discharged"][:4],
        obligations=len(V.obligations), discharged=c.get("discharged", 0), queries=cov["queries"], kani=cov["kani"],
        functions_encoded=["Process::execute_op -> Process::advance_clock -> System::advance_clock (MIR)", "Process::initialize (MIR)",
                           "miden_air::ExecutionOptions::new (Kani/CBMC on the compiled code)"],
        bounds="arbitrary clk < 2^32-1 and arbitrary limit (no bound on the number of cycles: one inductive step); ExecutionOptions::new: expected_cycles <= 2^31",
        operations=names,
        sources_fingerprint=repo_fingerprint(["processor/src/system/mod.rs", "processor/src/operations/mod.rs", "air/src/options.rs", "processor/src/lib.rs"]),
        evaluations=len(V.obligations), distinct_nontrivial=c.get("discharged", 0),
        rule="one obligation per (operation, path kind) + option-validation harness",
    )
    write_evidence(PROP, "model_checking", coverage,
                   ["every executed cycle goes through Process::execute_op (block start/end rows use Noop/Drop via execute_op: C06/C14 path logs)",
                    "clk = u32::MAX excluded (DESIGN section 8)"], time.time() - t0, violations=len(V.violations))
    V.finish()


if __name__ == "__main__":
    main()
