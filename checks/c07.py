"""C07 (partial) — contexts: call / syscall blocks of the real processor (MIR, Engine C).
execute_call_block with start_call_block / end_call_block, System::{start_call,start_syscall,
restore_context}, ExecutionContextInfo::new are executed symbolically; the callee is an opaque child
that replaces the visible stack and may leave depth 16 or 17; the decoder's block stack is modelled
as a LIFO of the context records handed to it.  Decided per path:
  - inside the callee: depth 16, ctx = clk+1 (call) / 0 (syscall), fmp = FMP_MIN / SYSCALL_FMP_MIN,
    in_syscall flag, fn_hash = callee hash (call) / unchanged (syscall);
  - a syscall asks the kernel ROM first and propagates its refusal before anything else;
  - return with depth > 16 => Err(InvalidStackDepthOnReturn) and nothing restored;
  - after a successful return ctx, fmp, fn_hash, in_syscall, the caller's overflow items, depth and
    b1 are exactly as before the call.
  - get_valid_address: addresses >= 2^32 are rejected; op_caller fails outside a syscall."""
import os
import re
import sys
import time

import z3

sys.path.insert(0, os.path.dirname(os.path.abspath(__file__)))
import procops  # noqa: E402
from procops import airq, classify, mirsym, opsum, pm, run_op  # noqa: E402
from common import REPO, Verdict, log, repo_fingerprint, save_replay, seed, tier, write_evidence  # noqa: E402
from field import P, Lin  # noqa: E402
from mir_parse import Unsupported  # noqa: E402
from mirsym import En, F, I, Opaque, Ref, Struct, UNIT  # noqa: E402

PROP = "C07"
FMP_MIN = 2**30
SYSCALL_FMP_MIN = 2**31


def call_natives(state, is_syscall):
    def n_block_part(it, a, d, m):
        what = m.group(1)
        if what == "is_syscall":
            return is_syscall
        if what == "fn_hash":
            return Opaque("callee_hash")
        return Opaque(f"call.{what}")

    def n_hash_ctrl(it, a, d, m):
        return F(it.ctx.var(it.fresh("addr")))

    def n_kernel(it, a, d, m):
        it.events.append(("chiplets", "access_kernel_proc"))
        if it.decide(z3.Bool("kernel_refuses")):
            return En("Err", [En("SyscallTargetNotInKernel", [], ty="ExecutionError")], ty="Result")
        return En("Ok", [UNIT], ty="Result")

    def n_start(it, a, d, m):
        it.events.append(("decoder", m.group(1)))
        state["block_stack"].append(pm.deref(a[-1]))
        return UNIT

    def n_end(it, a, d, m):
        it.events.append(("decoder", "end_control_block"))
        if state["block_stack"]:
            return En("Some", [state["block_stack"].pop()], ty="Option")
        return En("None", [], ty="Option")

    def n_child(it, a, d, m):
        proc = pm.deref(a[0])
        st = proc.stack
        sysm = proc.system
        it.events.append(("child", "callee"))
        it.info["callee"] = dict(depth=st.depth, ctx=ctxv(sysm.by_name("ctx")), fmp=sysm.by_name("fmp"), in_syscall=sysm.by_name("in_syscall"),
                                 fn_hash=sysm.by_name("fn_hash"), visible_overflow=len(st.overflow) - st.hidden if hasattr(st, "hidden") else None,
                                 b1=st.b1)
        st.top = [F(it.ctx.var(it.fresh("t"))) for _ in range(16)]
        st.next = [None] * 16
        if it.decide(z3.Bool("callee_leaves_extra_item")):
            st.overflow.append((F(it.ctx.var("extra")), F(it.ctx.var("extra_clk")), st.b1))
            st.depth += 1
        if it.decide(z3.Bool("callee_fails")):
            return En("Err", [En("ChildError", [], ty="ExecutionError")], ty="Result")
        return En("Ok", [UNIT], ty="Result")

    def n_start_context(it, a, d, m):
        st = pm.deref(a[0])
        cur_depth, cur_addr = st.depth, st.b1
        st.hidden = len(st.overflow)
        st.depth = 16
        st.b1 = F(Lin({}, 0))
        it.events.append(("stack", "start_context"))
        return [I(cur_depth, "usize"), cur_addr]

    def n_restore_context(it, a, d, m):
        st = pm.deref(a[0])
        depth = a[1]
        st.depth = depth.v if isinstance(depth.v, int) else depth.v
        st.b1 = pm.deref(a[2])
        st.hidden = 0
        it.events.append(("stack", "restore_context"))
        return UNIT

    return [
        (re.compile(r"miden_core::code_blocks::Call::(is_syscall|fn_hash|hash|domain)"), n_block_part),
        (re.compile(r"CodeBlock::hash|miden_core::code_blocks::Dyn::dyn_hash"), lambda it, a, d, m: Opaque("hash")),
        (re.compile(r"<RpoDigest as Into<\[Felt; 4\]>>::into"), lambda it, a, d, m: [F(it.ctx.var(f"callee_hash{i}")) for i in range(4)]),
        # the callee hash may be the reserved hash of the dyn block (dyncall; a hand-built syscall node could carry it too)
        (re.compile(r"<RpoDigest as PartialEq>::eq"), lambda it, a, d, m: it.decide(z3.Bool("fn_hash_is_dyn_hash"))),
        (re.compile(r"miden_core::code_blocks::Dyn::new"), lambda it, a, d, m: Opaque("dyn_block")),
        (re.compile(r"Process::<H>::execute_dyn_block"), n_child),
        (re.compile(r"Chiplets::hash_control_block"), n_hash_ctrl),
        (re.compile(r"Chiplets::access_kernel_proc"), n_kernel),
        (re.compile(r"Decoder::(start_call|start_syscall)"), n_start),
        (re.compile(r"Decoder::end_control_block"), n_end),
        (re.compile(r"CodeBlockTable::get"), lambda it, a, d, m: En("Some", [Opaque("callee_body")], ty="Option")),
        (re.compile(r"Option::<&CodeBlock>::ok_or_else::<.*>"), lambda it, a, d, m: En("Ok", [pm.deref(a[0]).fields[0]], ty="Result")),
        (re.compile(r"Process::<H>::execute_code_block"), n_child),
        (re.compile(r"Stack::start_context"), n_start_context),
        (re.compile(r"Stack::restore_context"), n_restore_context),
        (re.compile(r"Option::<ExecutionContextInfo>::expect|Option::<.*ExecutionContextInfo>::expect"), pm.n_option_expect),
    ]


def run_call(interp, meta, is_syscall):
    fn = [n for n in interp.fns if n.endswith("::execute_call_block") and "processor/src/lib.rs" in n]
    assert len(fn) == 1, fn
    state = {}

    def make_run(it):
        state["block_stack"] = []
        proc = opsum.make_state(it, meta.cols, 2)
        proc.stack.multi_step = True
        it.begin_run(proc)
        # documented restriction (execution_contexts.md): kernel procedures cannot use call or syscall,
        # so no context is created from within a syscall (System::start_call debug_asserts it)
        it.assume(z3.Not(z3.Bool("in_syscall")))
        sysm = proc.system
        it.info["before"] = dict(ctx=ctxv(sysm.by_name("ctx")), fmp=sysm.by_name("fmp"), in_syscall=sysm.by_name("in_syscall"),
                                 fn_hash=list(sysm.by_name("fn_hash")), overflow=list(proc.stack.overflow), depth=proc.stack.depth, b1=proc.stack.b1,
                                 clk=sysm.clk.v)
        return lambda: it.run_fn(it.fns[fn[0]].parsed(), [Ref({"p": proc}, "p"), Ref({"b": Opaque("call")}, "b"), Opaque("cb_table")])

    saved = interp.natives
    interp.natives = call_natives(state, is_syscall) + saved
    try:
        return interp.explore(make_run)
    finally:
        interp.natives = saved


def ctxv(x):
    if isinstance(x, Struct):
        return x[0].v
    if isinstance(x, En):
        return x.fields[0].v
    return x.v


def implies(res, cond):
    s = z3.Solver()
    s.set("timeout", 20000)
    s.add(res.ctx.side)
    s.add(res.pc)
    s.add(z3.Not(cond))
    return s.check() == z3.unsat


def feq(ctx, a, b):
    return ctx.eq(a.l, b.l)


def confirm_syscall(V, name, ev):
    """native: hand-built programs whose SYSCALL node targets a non-kernel hash must be refused"""
    import masmsym
    nat = masmsym.native([dict(kind="syscall_refusal")], "c07s")[0]
    done = [o for o in nat.get("outcomes", []) if o.get("outcome") == "completed" or "SyscallTargetNotInKernel" not in o.get("error", "")]
    if nat.get("status") != "ok" or done:
        path = save_replay(PROP, "syscall_refusal", dict(kind="syscall_refusal", native=nat, events=ev))
        V.violation(name, path, f"a syscall path starts the block before consulting the kernel ROM ({ev[:3]}); native: a SYSCALL node whose target is not a kernel procedure is not refused: {done or nat}", key="syscall:kernel-first")
    else:
        V.add(name, "inconclusive", detail=f"{ev[:3]}; native programs with a non-kernel SYSCALL target are refused: {nat}")


def check_calls(interp, meta, V, cov):
    for is_syscall in (False, True):
        kind_name = "syscall" if is_syscall else "call"
        try:
            paths = run_call(interp, meta, is_syscall)
        except Unsupported as e:
            V.add(f"{kind_name}", "inconclusive", detail=str(e))
            continue
        cov["paths"] += len(paths)
        seen = set()
        for pi, res in enumerate(paths):
            kind, detail = classify(res)
            err = getattr(detail, "variant", None) if kind == "err" else None
            ctx = res.ctx
            proc = res.models
            b = res.info["before"]
            ev = [(e[0], e[1]) for e in res.events if e[0] in ("chiplets", "decoder", "child", "stack")]
            tag = f"{kind_name}#p{pi}"
            if kind == "panic":
                V.add(tag, "inconclusive", detail=str(res.value))
                continue
            if err == "CycleLimitExceeded":
                continue
            if is_syscall:
                first = [e for e in ev if e[0] in ("chiplets", "decoder", "child")][:1]
                if first == [("chiplets", "access_kernel_proc")]:
                    V.add(f"{tag}: kernel ROM consulted before anything else", "discharged")
                else:
                    confirm_syscall(V, f"{tag}: kernel ROM consulted before anything else", ev)
                if err == "SyscallTargetNotInKernel":
                    V.add(f"{tag}: refusal propagates with no block started", "discharged" if not any(e[0] in ("decoder", "child") for e in ev) else "inconclusive")
                    seen.add("refused")
                    continue
            cal = res.info.get("callee")
            if cal is not None:
                conds = [("depth is 16 inside the callee", cal["depth"] == 16)]
                if is_syscall:
                    conds += [("ctx = 0", cal["ctx"] == 0), ("fmp = SYSCALL_FMP_MIN", ctx.eq(cal["fmp"].l, Lin({}, SYSCALL_FMP_MIN))),
                              ("in_syscall set", cal["in_syscall"] is True or z3.is_true(z3.simplify(cal["in_syscall"] == True)))]  # noqa: E712
                else:
                    conds += [("ctx = clk + 1 (fresh)", cal["ctx"] == b["clk"] + 1), ("fmp = FMP_MIN", ctx.eq(cal["fmp"].l, Lin({}, FMP_MIN))),
                              ("fn_hash = callee hash", z3.And([ctx.eq(cal["fn_hash"][i].l, ctx.var(f"callee_hash{i}")) for i in range(4)]))]
                conds.append(("overflow address reset (b1 = 0): caller's items are invisible", ctx.eq(cal["b1"].l, Lin({}, 0))))
                for label, c in conds:
                    ok = c if isinstance(c, bool) else implies(res, c)
                    V.add(f"{tag}: callee sees {label}", "discharged" if ok else "inconclusive")
                    if not ok and not isinstance(c, bool):
                        path = save_replay(PROP, f"{kind_name}_{pi}", dict(kind=kind_name, label=label))
                        V.violation(f"{tag}:{label}", path, f"{kind_name}: inside the callee `{label}` does not hold", key=f"{kind_name}:{label.replace(' ', '')}")
            leaves_extra = any(str(c) == "callee_leaves_extra_item" for c in res.pc)
            if kind == "ok":
                seen.add("returned")
                if leaves_extra:
                    path = save_replay(PROP, f"{kind_name}_{pi}", dict(kind=kind_name, what="returned Ok with depth 17"))
                    V.violation(tag, path, f"{kind_name} returned successfully although the callee left depth 17", key=f"{kind_name}:depth-on-return")
                    continue
                sysm = proc.system
                st = proc.stack
                post = [("ctx restored", ctxv(sysm.by_name("ctx")) == b["ctx"]),
                        ("fmp restored", ctx.eq(sysm.by_name("fmp").l, b["fmp"].l)),
                        ("fn_hash restored", z3.And([ctx.eq(sysm.by_name("fn_hash")[i].l, b["fn_hash"][i].l) for i in range(4)])),
                        ("in_syscall restored", sysm.by_name("in_syscall") == b["in_syscall"]),
                        ("overflow address b1 restored", ctx.eq(st.b1.l, b["b1"].l))]
                for label, c in post:
                    ok = implies(res, c)
                    if ok:
                        V.add(f"{tag}: after return {label}", "discharged")
                    else:
                        path = save_replay(PROP, f"{kind_name}_{pi}", dict(kind=kind_name, label=label))
                        V.violation(f"{tag}:{label}", path, f"{kind_name}: after return `{label}` does not hold", key=f"{kind_name}:{label.replace(' ', '')}")
                same_ovf = st.depth == b["depth"] and len(st.overflow) == len(b["overflow"]) and all(x[0] is y[0] for x, y in zip(st.overflow, b["overflow"]))
                V.add(f"{tag}: caller's deeper stack items and depth unchanged", "discharged" if same_ovf else "inconclusive")
            elif err == "InvalidStackDepthOnReturn":
                seen.add("depth-error")
                ok = leaves_extra and ("stack", "restore_context") not in ev
                V.add(f"{tag}: InvalidStackDepthOnReturn only when the callee left extra items; nothing restored", "discharged" if ok else "inconclusive", detail=str(ev))
        want = {"returned", "depth-error"} | ({"refused"} if is_syscall else set())
        V.add(f"{kind_name}: return, depth-error{' and refusal' if is_syscall else ''} paths all exist", "discharged" if want <= seen else "inconclusive", detail=str(seen))


def check_address(interp, meta, V, cov):
    fn = [n for n in interp.fns if n.endswith("::get_valid_address")]

    def make_run(it):
        it.begin_run(None)
        a = F(it.ctx.var("addr"))
        it.info["addr"] = a
        return lambda: it.run_fn(it.fns[fn[0]].parsed(), [a])

    paths = interp.explore(make_run)
    for pi, res in enumerate(paths):
        kind, detail = classify(res)
        av = res.ctx.value(res.info["addr"].l)
        if kind == "ok":
            goal = z3.And(av < 2**32, res.value.fields[0].v == av)
            label = "accepted only below 2^32, value preserved"
        elif kind == "err":
            goal = av >= 2**32
            label = "rejected only at or above 2^32"
        else:
            continue
        if implies(res, goal):
            V.add(f"address#p{pi}: {label}", "discharged")
            continue
        # counterexample address -> native run of `mem_load` at that address
        s = z3.Solver()
        s.add(res.ctx.side)
        s.add(res.pc)
        s.add(z3.Not(goal))
        if s.check() != z3.sat:
            V.add(f"address#p{pi}: {label}", "inconclusive", detail="solver unknown")
            continue
        a = s.model().eval(av, model_completion=True).as_long()
        import json
        from common import build_engine, run, WORK
        binp = build_engine("replay", release=True)
        d = os.path.join(WORK, "replay")
        os.makedirs(d, exist_ok=True)
        jf, of = os.path.join(d, "c07.in.json"), os.path.join(d, "c07.out.json")
        src = "begin mem_load end"
        json.dump({"jobs": [{"kind": "exec_masm", "source": src, "stack": [str(a)], "max_cycles": 4096}]}, open(jf, "w"))
        run([binp, jf, of], timeout=300)
        nat = json.load(open(of))["results"][0]
        want_ok = a < 2**32
        path = save_replay(PROP, f"address_{pi}", dict(kind="exec_masm", source=src, stack=[str(a)], native=nat, expected="ok" if want_ok else "error"))
        if (nat["status"] == "ok") != want_ok:
            V.violation(f"address#p{pi}: {label}", path, f"memory address {a}: native mem_load ends {nat['status']}, documented: {'ok' if want_ok else 'error (>= 2^32)'}",
                        key="address:bound")
        else:
            V.add(f"address#p{pi}: {label}", "inconclusive", detail=f"solver counterexample addr={a} did not reproduce natively")
    V.add("address: both paths exist", "discharged" if len(paths) == 2 else "inconclusive")


def check_caller(interp, meta, V, cov):
    paths = run_op(interp, meta, "Caller", 0)
    for pi, res in enumerate(paths):
        kind, detail = classify(res)
        insys = z3.Bool("in_syscall")
        if kind == "ok":
            ok = implies(res, insys)
            S = procops.spec_view(res, meta)
            fnh = [res.ctx.var(f"fnh{i}") for i in range(4)]
            # caller overwrites the top 4 with the hash of the calling procedure (word order: element 0 deepest)
            okh = all(implies(res, res.ctx.eq(S.n[i], fnh[3 - i])) for i in range(4))
            V.add(f"caller#p{pi}: succeeds only inside a syscall and yields fn_hash", "discharged" if ok and okh else "inconclusive")
        elif kind == "err" and getattr(detail, "variant", "") == "CallerNotInSyscall":
            V.add(f"caller#p{pi}: CallerNotInSyscall only outside a syscall", "discharged" if implies(res, z3.Not(insys)) else "inconclusive")


def main():
    t0 = time.time()
    V = Verdict(PROP)
    meta = airq.get_meta()
    interp = opsum.make_interp(max_paths=512)
    cov = dict(paths=0)
    try:
        check_calls(interp, meta, V, cov)
        check_address(interp, meta, V, cov)
        check_caller(interp, meta, V, cov)
    except Unsupported as e:
        V.add("contexts", "inconclusive", detail=f"MIR construct outside the interpreter's subset: {e}")
    import c07_mem
    c07_mem.run(V, cov)
    c = V.counts()
    coverage = dict(
        states=cov["paths"], transitions=c.get("discharged", 0), traces_validated_against_impl=cov.get("native", 0),
        memory=dict(sequences=len(c07_mem.sequences()), paths=cov.get("mem_paths", 0), queries=cov.get("mem_queries", 0),
                    what="every sequence of <= 3 (quick) / <= 4 (thorough) accesses over {read, write, element store} plus double-word reads/writes, symbolic context ids, addresses, words and clock, followed by a probe at an arbitrary (context, address); BTreeMaps as association lists with solver-decided key comparisons"),
        samples=V.obligations[:6] + [o for o in V.obligations if o["status"] != "discharged"][:4],
        obligations=len(V.obligations), discharged=c.get("discharged", 0),
        functions_encoded=["Process::execute_call_block, start_call_block, end_call_block (MIR)", "System::start_call/start_syscall/restore_context (MIR)",
                           "ExecutionContextInfo::new (MIR)", "get_valid_address, op_caller (MIR)",
                           "Chiplets::read_mem/read_mem_double/write_mem/write_mem_double/write_mem_element, Memory::read/write/get_value/get_old_value, MemorySegmentTrace::read/write/get_value + closures, MemorySegmentAccess::new/value (MIR)"],
        bounds="one call / syscall from an arbitrary state with 2 caller items below the top 16; callee opaque (replaces the visible stack, may leave depth 16 or 17, may fail); memory: access sequences of the listed lengths on a fresh memory (longer histories are outside the claim)",
        not_covered="which context / address a memory operation passes to the memory (decided under C05), memory histories longer than the bound, the memory chiplet's constraints (C04), dyncall/dynexec target lookup, locals via fmp in the assembler",
        sources_fingerprint=repo_fingerprint(["processor/src/lib.rs", "processor/src/decoder/mod.rs", "processor/src/system/mod.rs", "processor/src/chiplets/memory", "processor/src/chiplets/mod.rs"]),
        evaluations=len(V.obligations), distinct_nontrivial=c.get("discharged", 0), rule="one obligation per (block kind, path, fact)",
    )
    write_evidence(PROP, "model_checking", coverage, ["decoder block stack modelled as a LIFO of the context records passed to start_call/start_syscall",
                                                      "Stack::start_context/restore_context modelled on the abstract stack", "BTreeMap (entry / or_default / and_modify / or_insert_with / get) modelled as an association list; vec![x] lowering (Box::new_uninit + box_assume_init_into_vec_unsafe) modelled as a one-element list"], time.time() - t0, violations=len(V.violations))
    V.finish()


if __name__ == "__main__":
    main()
