"""C08 (partial) — operation batching of span blocks obeys the documented rules.
Inductive formulation over the real OpBatchAccumulator (MIR of miden-core, Engine C): from an
ARBITRARY accumulator state satisfying the representation invariant and an arbitrary operation
(symbolic opcode < 2^7, symbolic immediate flag and value), z3 decides that
  O1 can_accept_op  ==  "the operation (plus its immediate, plus a new group if the current one cannot
     take it) still fits into 8 groups of 9 operations, an immediate-carrying op never being 9th";
  O2 add_op (when accepted) never panics, keeps the invariant, places the opcode at bit 7*i of the
     right group, puts the immediate into the next free group, finalizes a full group correctly and
     touches nothing else;
  O3 into_batch exports exactly the accumulated groups/counts and num_groups;
  O4 new() satisfies the invariant; opcodes are distinct 7-bit values and only PUSH has an immediate.
One step from an arbitrary valid state covers operation sequences of any length."""
import os
import re
import sys
import time

import z3

sys.path.insert(0, os.path.join(os.path.dirname(os.path.abspath(__file__)), "..", "lib"))
import airq  # noqa: E402
import mir_parse as mp  # noqa: E402
import mirsym  # noqa: E402
import opsum  # noqa: E402
import procmodel as pm  # noqa: E402
from common import REPO, Verdict, log, repo_fingerprint, save_replay, seed, tier, write_evidence  # noqa: E402
from field import P, Lin  # noqa: E402
from mir_parse import Unsupported  # noqa: E402
from mirsym import En, F, I, Opaque, Ref, Struct, UNIT  # noqa: E402

PROP = "C08"
GROUP_SIZE, BATCH_SIZE, OP_BITS = 9, 8, 7
ACC_FIELDS = None


class Op:
    def __init__(self, it):
        self.has_imm = z3.Bool("op_has_imm")
        self.imm = F(it.ctx.var("op_imm"))
        self.opcode = z3.Int("op_code")
        it.assume(z3.And(self.opcode >= 0, self.opcode < 2**OP_BITS))


def natives():
    def imm_value(it, a, d, m):
        op = pm.deref(a[0])
        if it.decide(op.has_imm):
            return En("Some", [op.imm], ty="Option")
        return En("None", [], ty="Option")

    def op_code(it, a, d, m):
        return I(pm.deref(a[0]).opcode, "u8")

    def vec_push(it, a, d, m):
        pm.deref(a[0]).append(pm.deref(a[1]))
        return UNIT

    def is_some(it, a, d, m):
        return pm.deref(a[0]).variant == "Some"

    return [
        (re.compile(r"Operation::imm_value"), imm_value),
        (re.compile(r"Operation::op_code"), op_code),
        (re.compile(r"(?:std::vec::)?Vec::<Operation>::push"), vec_push),
        (re.compile(r"Option::<Felt>::is_some"), is_some),
        (re.compile(r"(?:std::vec::)?Vec::<Operation>::is_empty"), lambda it, a, d, m: len(pm.deref(a[0])) == 0),
        (re.compile(r"(?:std::vec::)?Vec::<Operation>::new"), lambda it, a, d, m: []),
    ] + pm.NATIVES


def pow2_7(x):
    """2^(7*x) for 0 <= x <= 9"""
    t = z3.IntVal(1 << 63)
    for j in range(8, -1, -1):
        t = z3.If(x == j, 1 << (7 * j), t)
    return t


def make_acc(it):
    names = opsum.struct_fields(os.path.join(REPO, "core/src/program/blocks/span_block.rs"), "OpBatchAccumulator")
    st = Struct()
    vals = dict(
        ops=[],
        groups=[F(it.ctx.var(f"g{j}")) for j in range(BATCH_SIZE)],
        op_counts=[I(z3.Int(f"cnt{j}"), "usize") for j in range(BATCH_SIZE)],
        group=I(z3.Int("group"), "u64"),
        op_idx=I(z3.Int("op_idx"), "usize"),
        group_idx=I(z3.Int("group_idx"), "usize"),
        next_group_idx=I(z3.Int("next_group_idx"), "usize"),
    )
    for i, n in enumerate(names):
        st[i] = vals[n]
    st.names = names
    for j in range(BATCH_SIZE):
        it.assume(z3.And(vals["op_counts"][j].v >= 0, vals["op_counts"][j].v <= GROUP_SIZE))
    return st, vals


def inv(v):
    """representation invariant of the accumulator (over z3 Ints)"""
    return z3.And(v["op_idx"] >= 0, v["op_idx"] <= GROUP_SIZE, v["group_idx"] >= 0, v["group_idx"] < v["next_group_idx"],
                  v["next_group_idx"] <= BATCH_SIZE, v["group"] >= 0, v["group"] < pow2_7(v["op_idx"]))


def spec_accept(op, v):
    need_new = z3.If(op.has_imm, v["op_idx"] >= GROUP_SIZE - 1, v["op_idx"] >= GROUP_SIZE)
    needed = z3.If(need_new, 1, 0) + z3.If(op.has_imm, 1, 0)
    return need_new, v["next_group_idx"] + needed <= BATCH_SIZE


def getf(st, name):
    return st[st.names.index(name)]


def decide_post(res, assume_extra, post):
    s = z3.Solver()
    s.set("timeout", int(os.environ.get("VERIF_C08_TIMEOUT_MS", "60000")))
    s.add(res.ctx.side)
    s.add(res.pc)
    s.add(assume_extra)
    s.add(z3.Not(post))
    r = s.check()
    if r == z3.unsat:
        return "unsat", None
    if r == z3.sat:
        m = s.model()
        keys = ["op_idx", "group_idx", "next_group_idx", "group", "op_code"]
        return "sat", {k: m.eval(z3.Int(k), model_completion=True).as_long() for k in keys} | {"op_has_imm": str(m.eval(z3.Bool("op_has_imm"), model_completion=True))}
    return "unknown", s.reason_unknown()


def record(V, name, st, info, cov):
    cov["queries"] += 1
    if st == "unsat":
        V.add(name, "discharged")
    elif st == "sat":
        cov["candidates"].append((name, info))
        V.add(name, "candidate", detail=str(info))
    else:
        V.add(name, "inconclusive", detail=str(info))


def fn_named(interp, suffix):
    c = [n for n in interp.fns if n.endswith("::" + suffix) and "span_block" in n]
    if len(c) > 1:
        # several impls in the file: the accumulator's is the one whose signature mentions it
        c = [n for n in c if "OpBatchAccumulator" in (interp.fns[n].ret or "") or any("OpBatchAccumulator" in t for _, t in interp.fns[n].args)]
    if len(c) != 1:
        raise Unsupported(f"function {suffix} of OpBatchAccumulator not found uniquely: {c}")
    return interp.fns[c[0]].parsed()


def v0(vals):
    return {k: (x.v if isinstance(x, I) else x) for k, x in vals.items()}


def check_can_accept(interp, V, cov):
    fn = fn_named(interp, "can_accept_op")

    def make_run(it):
        it.begin_run(None)
        st, vals = make_acc(it)
        op = Op(it)
        it.info.update(st=st, vals=v0(vals), op=op)
        it.assume(inv(v0(vals)))
        return lambda: it.run_fn(fn, [Ref({"a": st}, "a"), op])

    paths = interp.explore(make_run)
    cov["paths"] += len(paths)
    for pi, res in enumerate(paths):
        if res.outcome != "ok":
            V.add(f"can_accept_op#p{pi}", "candidate", detail=f"panic path: {res.value}")
            cov["candidates"].append((f"can_accept_op#p{pi}: panic {res.value}", None))
            continue
        ret = res.value
        retb = ret if isinstance(ret, z3.BoolRef) else z3.BoolVal(bool(ret))
        _, acc = spec_accept(res.info["op"], res.info["vals"])
        st, info = decide_post(res, [], retb == acc)
        record(V, f"can_accept_op#p{pi}: result == documented capacity rule", st, info, cov)


def check_add_op(interp, V, cov):
    fn = fn_named(interp, "add_op")

    def make_run(it):
        it.begin_run(None)
        st, vals = make_acc(it)
        op = Op(it)
        v = v0(vals)
        it.info.update(st=st, vals=v, op=op, groups0=list(vals["groups"]), counts0=list(vals["op_counts"]))
        it.assume(inv(v))
        need_new, acc = spec_accept(op, v)
        it.assume(acc)  # add_op is only called after can_accept_op (batch_ops)
        it.info["need_new"] = need_new
        return lambda: it.run_fn(fn, [Ref({"a": st}, "a"), op])

    paths = interp.explore(make_run)
    cov["paths"] += len(paths)
    for pi, res in enumerate(paths):
        tag = f"add_op#p{pi}"
        if res.outcome != "ok":
            cov["candidates"].append((f"{tag}: panic {res.value}", None))
            V.add(tag, "candidate", detail=f"panic path: {res.value}")
            continue
        st, v, op, ctx = res.info["st"], res.info["vals"], res.info["op"], res.ctx
        need_new = res.info["need_new"]
        g1, c1 = getf(st, "groups"), getf(st, "op_counts")
        n = {k: getf(st, k).v for k in ("group", "op_idx", "group_idx", "next_group_idx")}
        n = {k: (z3.IntVal(x) if isinstance(x, int) else x) for k, x in n.items()}
        gval = lambda f: ctx.value(f.l)  # noqa: E731
        felt_of_group = z3.If(v["group"] >= P, v["group"] - P, v["group"])
        posts = []
        posts.append(("invariant preserved", inv(n)))
        posts.append(("op_idx'", n["op_idx"] == z3.If(need_new, 1, v["op_idx"] + 1)))
        posts.append(("group_idx'", n["group_idx"] == z3.If(need_new, v["next_group_idx"], v["group_idx"])))
        nfree = z3.If(need_new, v["next_group_idx"] + 1, v["next_group_idx"])
        posts.append(("next_group_idx'", n["next_group_idx"] == nfree + z3.If(op.has_imm, 1, 0)))
        posts.append(("opcode packed at bit 7*i of the current group, other bits unchanged",
                      n["group"] == z3.If(need_new, op.opcode, v["group"] + op.opcode * pow2_7(v["op_idx"]))))
        posts.append(("an operation with an immediate is never the 9th of its group", z3.Implies(op.has_imm, n["op_idx"] - 1 <= GROUP_SIZE - 2)))
        for j in range(BATCH_SIZE):
            fin = z3.And(need_new, v["group_idx"] == j)
            immhere = z3.And(op.has_imm, nfree == j)
            posts.append((f"groups[{j}]", gval(g1[j]) == z3.If(immhere, gval(op.imm), z3.If(fin, felt_of_group, gval(res.info["groups0"][j])))))
            cj = c1[j].v if not isinstance(c1[j].v, int) else z3.IntVal(c1[j].v)
            posts.append((f"op_counts[{j}]", cj == z3.If(fin, v["op_idx"], res.info["counts0"][j].v)))
        ops = getf(st, "ops")
        V.add(f"{tag}: operation appended to the batch's op list", "discharged" if len(ops) == 1 and ops[0] is op else "inconclusive")
        for label, post in posts:
            if label.startswith(("opcode packed", "invariant preserved", "an operation with an immediate")):
                # arithmetic over 2^(7*op_idx): one query per slot position keeps each of them linear
                for j in range(GROUP_SIZE + 1):
                    s_, info = decide_post(res, [v["op_idx"] == j], post)
                    record(V, f"{tag}: {label} [op_idx = {j}]", s_, info, cov)
                continue
            s_, info = decide_post(res, [], post)
            record(V, f"{tag}: {label}", s_, info, cov)


def check_into_batch(interp, V, cov):
    fn = fn_named(interp, "into_batch")

    def make_run(it):
        it.begin_run(None)
        st, vals = make_acc(it)
        v = v0(vals)
        it.info.update(st=st, vals=v, groups0=list(vals["groups"]), counts0=list(vals["op_counts"]))
        it.assume(inv(v))
        return lambda: it.run_fn(fn, [st])

    paths = interp.explore(make_run)
    cov["paths"] += len(paths)
    bnames = opsum.struct_fields(os.path.join(REPO, "core/src/program/blocks/span_block.rs"), "OpBatch")
    for pi, res in enumerate(paths):
        tag = f"into_batch#p{pi}"
        if res.outcome != "ok":
            cov["candidates"].append((f"{tag}: panic {res.value}", None))
            V.add(tag, "candidate", detail=f"panic path: {res.value}")
            continue
        b = res.value
        v, ctx = res.info["vals"], res.ctx
        get = lambda n: b[n] if n in b else b[bnames.index(n)]  # noqa: E731
        ng = get("num_groups").v
        live = z3.Or(v["group"] != 0, v["op_idx"] != 0)
        felt_of_group = z3.If(v["group"] >= P, v["group"] - P, v["group"])
        posts = [("num_groups = next_group_idx", ng == v["next_group_idx"])]
        for j in range(BATCH_SIZE):
            here = z3.And(live, v["group_idx"] == j)
            posts.append((f"groups[{j}]", ctx.value(get("groups")[j].l) == z3.If(here, felt_of_group, ctx.value(res.info["groups0"][j].l))))
            cj = get("op_counts")[j].v
            cj = z3.IntVal(cj) if isinstance(cj, int) else cj
            posts.append((f"op_counts[{j}]", cj == z3.If(here, v["op_idx"], res.info["counts0"][j].v)))
        for label, post in posts:
            s_, info = decide_post(res, [], post)
            record(V, f"{tag}: {label}", s_, info, cov)


def check_new_and_opcodes(interp, V, cov):
    fn = fn_named(interp, "new")

    def make_run(it):
        it.begin_run(None)
        return lambda: it.run_fn(fn, [])

    try:
        paths = interp.explore(make_run)
        st = paths[0].value
        names = opsum.struct_fields(os.path.join(REPO, "core/src/program/blocks/span_block.rs"), "OpBatchAccumulator")
        g = lambda n: st[n] if n in st else st[names.index(n)]  # noqa: E731
        ok = (g("op_idx").v == 0 and g("group_idx").v == 0 and g("next_group_idx").v == 1 and g("group").v == 0
              and all(x.l.is_const() and x.l.const == 0 for x in g("groups")) and all(c.v == 0 for c in g("op_counts")))
        V.add("new(): empty accumulator satisfies the invariant (group 0 current, group 1 next free)", "discharged" if ok else "inconclusive", detail=str(st)[:200])
    except Unsupported as e:
        V.add("new()", "inconclusive", detail=str(e))
    meta = airq.get_meta()
    codes = [o["opcode"] for o in meta.ops.values()]
    V.add("opcodes are pairwise distinct 7-bit values", "discharged" if len(set(codes)) == len(codes) and all(0 <= c < 128 for c in codes) else "inconclusive")
    imms = sorted(n for n, o in meta.ops.items() if o["imm"])
    V.add("only PUSH carries an immediate in the op group", "discharged" if imms == ["Push"] else "inconclusive", detail=str(imms))


def replay_candidates(V, cov):
    """a solver counterexample of the accumulator step is turned into a concrete op sequence that
    drives the real Span::new into that state, and the native batching is compared with the rule"""
    if not cov["candidates"]:
        return
    from common import build_engine, run, WORK
    import json
    binp = build_engine("replay", release=True)
    for name, info in cov["candidates"]:
        rep = dict(kind="batch_state", property=PROP, obligation=name, state=info)
        path = save_replay(PROP, re.sub(r"[^A-Za-z0-9_]", "_", name)[:60], rep)
        if info is None:
            V.violation(name, path, f"{name}", key=name.split(":")[0])
            continue
        # reach (group_idx, next_group_idx, op_idx): pushes fill immediate groups, noops fill op slots
        gi, ng, oi = info["group_idx"], info["next_group_idx"], info["op_idx"]
        ok, ops = reach_state(gi, ng, oi)
        if not ok:
            V.add(name, "inconclusive", detail=f"state {info} not reached by the replay generator (invariant may be too weak)")
            continue
        last = {"name": "Push", "imm": "5"} if info["op_has_imm"] == "True" else {"name": "Add"}
        seq = ops + [last]
        d = os.path.join(WORK, "replay")
        os.makedirs(d, exist_ok=True)
        jf, of = os.path.join(d, "c08.in.json"), os.path.join(d, "c08.out.json")
        json.dump({"jobs": [{"kind": "batch_ops", "ops": seq}]}, open(jf, "w"))
        run([binp, jf, of])
        nat = json.load(open(of))["results"][0]
        want = reference_batches([o["name"] == "Push" for o in seq])
        rep.update(ops=seq, native=nat, reference_num_batches=want)
        save_replay(PROP, re.sub(r"[^A-Za-z0-9_]", "_", name)[:60], rep)
        if nat.get("num_batches") != want:
            V.violation(name, path, f"{name}: native Span::new batches {len(seq)} ops into {nat.get('num_batches')} batch(es), the documented rule gives {want}; state {info}",
                        key=name.split("#")[0])
        else:
            V.add(name, "inconclusive", detail=f"solver counterexample {info} did not change the native batch count")


def reach_state(gi, ng, oi):
    """ops (Push / Noop) that bring a fresh accumulator to group_idx=gi, next_group_idx=ng, op_idx=oi
    within one batch, following the documented rule; (False, []) if the generator cannot"""
    ops = []
    g, n, o = 0, 1, 0
    guard = 0
    while (g, n, o) != (gi, ng, oi) and guard < 200:
        guard += 1
        if g < gi:
            # fill current group to 9 ops then one more op starts a new group
            if n - g - 1 < 0:
                return False, []
            # need pushes so that next group index equals the target's group start eventually: simple strategy: noops
            ops.append({"name": "Noop"})
            if o == GROUP_SIZE:
                g, n, o = n, n + 1, 1
            else:
                o += 1
            continue
        if n < ng:
            if o >= GROUP_SIZE - 1:
                return False, []
            ops.append({"name": "Push", "imm": "1"})
            n += 1
            o += 1
            continue
        if o < oi:
            ops.append({"name": "Noop"})
            o += 1
            continue
        return False, []
    return (g, n, o) == (gi, ng, oi), ops


def reference_batches(pattern):
    """documented batching rule: number of batches for a push/non-push pattern"""
    batches, n, o = 1, 1, 0
    for imm in pattern:
        need_new = o >= (GROUP_SIZE - 1 if imm else GROUP_SIZE)
        needed = (1 if need_new else 0) + (1 if imm else 0)
        if n + needed > BATCH_SIZE:
            batches += 1
            n, o = 1, 0
            need_new = False
        if need_new:
            n += 1
            o = 0
        if imm:
            n += 1
        o += 1
    return batches


def main():
    t0 = time.time()
    V = Verdict(PROP)
    path = opsum.dump_mir("core")
    fns = mp.parse_functions(open(path).read())
    consts = pm.base_consts(REPO)
    # constants that rustc prints by path only (their values are checked against the source below)
    for pref in ("", "program::blocks::span_block::", "span_block::", "miden_core::code_blocks::"):
        consts[pref + "GROUP_SIZE"] = I(GROUP_SIZE, "usize")
        consts[pref + "BATCH_SIZE"] = I(BATCH_SIZE, "usize")
    for pref in ("", "miden_core::", "operations::"):
        consts[pref + "Operation::OP_BITS"] = I(OP_BITS, "usize")
    interp = mirsym.Interp(fns, natives(), consts, max_paths=256)
    cov = dict(paths=0, queries=0, candidates=[])
    src = open(os.path.join(REPO, "core/src/program/blocks/span_block.rs")).read() + open(os.path.join(REPO, "core/src/operations/mod.rs")).read()
    consts_ok = (re.search(r"pub const GROUP_SIZE: usize = 9;", src) and re.search(r"pub const BATCH_SIZE: usize = 8;", src)
                 and re.search(r"pub const OP_BITS: usize = 7;", src))
    V.add("constants: 9 operations per group, 8 groups per batch, 7 bits per opcode", "discharged" if consts_ok else "inconclusive")
    try:
        check_can_accept(interp, V, cov)
        check_add_op(interp, V, cov)
        check_into_batch(interp, V, cov)
        check_new_and_opcodes(interp, V, cov)
    except Unsupported as e:
        V.add("accumulator", "inconclusive", detail=f"MIR construct outside the interpreter's subset: {e}")
    replay_candidates(V, cov)
    for o in V.obligations:
        if o["status"] == "candidate":
            o["status"] = "replayed"
    c = V.counts()
    coverage = dict(
        states=cov["paths"], transitions=c.get("discharged", 0), traces_validated_against_impl=len(cov["candidates"]),
        samples=V.obligations[:5] + [o for o in V.obligations if o["status"] != "discharged"][:5],
        obligations=len(V.obligations), discharged=c.get("discharged", 0), queries=cov["queries"],
        functions_encoded=["OpBatchAccumulator::{new,can_accept_op,add_op,finalize_op_group,into_batch} (MIR of miden-core)"],
        bounds="one accumulator step from an arbitrary state satisfying the invariant (covers sequences of any length by induction); Operation abstracted to (7-bit opcode, immediate flag, immediate)",
        not_covered="RPO hashing of the groups and domain-separated hashing of control blocks (hash functions), decorators kept outside batches, insensitivity to comments/names (assembler front end), hash recorded by an execution",
        sources_fingerprint=repo_fingerprint(["core/src/program/blocks/span_block.rs", "core/src/operations/mod.rs"]),
        evaluations=len(V.obligations), distinct_nontrivial=c.get("discharged", 0), rule="one obligation per (function, path, state component)",
    )
    write_evidence(PROP, "model_checking", coverage, ["representation invariant: 0 <= op_idx <= 9, group_idx < next_group_idx <= 8, group < 2^(7 op_idx)",
                                                      "add_op is only called after can_accept_op (batch_ops)"], time.time() - t0, violations=len(V.violations))
    V.finish()


if __name__ == "__main__":
    main()
