"""C04 — the AIR rejects deviations.  Orchestrates the Engine-A obligations:
   stack/system operations (c04_stack), range checker and chiplets (c04_chiplets).
usage: c04.py [--replay <file>]"""
import json
import os
import random
import sys
import time

sys.path.insert(0, os.path.join(os.path.dirname(os.path.abspath(__file__)), "..", "lib"))
sys.path.insert(0, os.path.join(os.path.dirname(os.path.abspath(__file__)), "..", "spec"))
import airq  # noqa: E402
import c04_stack  # noqa: E402
import ops as specmod  # noqa: E402
from common import Verdict, log, repo_fingerprint, save_replay, seed, tier, write_evidence  # noqa: E402
from field import AXIOMS, P  # noqa: E402

PROP = "C04"


def native_eval(rows):
    """evaluate the real evaluate_transition::<Felt> on concrete row pairs"""
    jobs = [{"kind": "eval", "cur": [str(x) for x in cur], "next": [str(x) for x in nxt], "per": [str(x) for x in per]}
            for cur, nxt, per in rows]
    res = airq.run_jobs(jobs, "c04_eval")
    return [[int(x) for x in r["results"]] for r in res]


def short(label):
    return label.split(" = ")[0].replace(" ", "")


def replay_stack(meta, ex, rep):
    """re-establish a stack-op counterexample against the native AIR: all system/stack constraints
    evaluate to zero on the row pair while the enforced cell deviates from the spec"""
    vname = rep["variant"]
    r, job = ex[vname]
    env = {k: int(v) for k, v in rep["env"].items()}
    cur, nxt = c04_stack.concrete_rows(meta, job, env)
    native = native_eval([(cur, nxt, [])])[0]
    idx = c04_stack.stack_system_roots(meta, r)
    nz = [i for i in idx if native[i] != 0]
    q = c04_stack.OpQuery(meta, vname, r, job)
    assume, posts = q.build()
    post = dict(posts)[rep["label"]]
    pre_ok = all(q.ctx.holds(a, env) for a in assume)
    post_holds = q.ctx.holds(post, env)
    ok = (not nz) and pre_ok and (not post_holds)
    return ok, dict(nonzero_constraints=nz, pre_ok=pre_ok, post_holds=post_holds, cur=cur, next=nxt)


def run_stack(meta, V, rng, cov):
    ex = c04_stack.extract(meta)
    covered_ops = set()
    for vname, (r, job) in ex.items():
        oname = vname.split("[")[0]
        covered_ops.add(oname)
        if vname not in specmod.SPEC:
            V.add(f"stack:{vname}", "inconclusive", detail="operation has no spec row and is not on the not-enforced list")
            continue
        res = c04_stack.check_variant(meta, vname, r, job, rng=rng)
        cov["queries"] += res["posts"] + 1
        cov["solver_time_s"] += res["secs"]
        if res["status"] == "vacuous":
            V.add(f"stack:{vname}", "inconclusive", res["secs"], "assumptions unsatisfiable (vacuous)")
            continue
        failing = dict(res["failing"])
        unknown = dict(res["unknown"])
        confirmed = []
        for label in res["labels"]:
            name = f"stack:{vname}:{label}"
            if label in failing:
                env = failing[label]
                rep = dict(kind="air_row_pair", property=PROP, variant=vname, label=label,
                           env={k: str(v) for k, v in env.items()},
                           readable=c04_stack.describe(meta, env))
                ok, info = replay_stack(meta, ex, rep)
                rep["native"] = {k: v for k, v in info.items() if k not in ("cur", "next")}
                rep["cur"], rep["next"] = [str(x) for x in info["cur"]], [str(x) for x in info["next"]]
                if ok:
                    confirmed.append((label, rep))
                else:
                    V.add(name, "inconclusive", detail=f"model does not reproduce natively: {rep['native']}")
            elif label in unknown:
                V.add(name, "inconclusive", detail=str(unknown[label]))
            else:
                V.add(name, "discharged")
        if confirmed:
            # one finding per operation variant, keyed by the exact set of cells that are not forced:
            # a different set for the same operation is a different violation
            cells = [short(l) for l, _ in confirmed]
            key = f"{vname}:" + "+".join(cells)
            safe = vname.replace("[", "_").replace("]", "")
            path = save_replay(PROP, safe, dict(kind="air_row_pairs", property=PROP, variant=vname, cases=[r for _, r in confirmed]))
            V.violation(f"stack:{vname}", path,
                        f"{vname}: all transition constraints evaluate to zero natively but not forced: {cells}; e.g. {confirmed[0][1]['readable']}",
                        key=key)
        if ("vacuity witness" in unknown) or ("axiom self-test failed" in unknown):
            V.add(f"stack:{vname}", "inconclusive", detail=str(unknown))
    # no-op-left-behind: every opcode of `Operation` is covered by a query
    missing = [o for o in meta.ops if o not in covered_ops]
    V.add("stack:every-operation-covered", "discharged" if not missing else "inconclusive", detail=str(missing))
    cov["operations"] = len(covered_ops)
    cov["variants"] = len(ex)
    return ex


def main():
    t0 = time.time()
    V = Verdict(PROP)
    meta = airq.get_meta()
    if len(sys.argv) > 2 and sys.argv[1] == "--replay":
        rep = json.load(open(sys.argv[2]))
        ex = c04_stack.extract(meta)
        cases = rep["cases"] if rep.get("kind") == "air_row_pairs" else [rep]
        anyok = False
        for case in cases:
            ok, info = replay_stack(meta, ex, case)
            anyok |= ok
            print(case["variant"], case["label"], json.dumps({k: v for k, v in info.items() if k not in ("cur", "next")}),
                  "REPRODUCED" if ok else "NOT-REPRODUCED")
        sys.exit(1 if anyok else 0)
    rng = random.Random(seed())
    cov = dict(queries=0, solver_time_s=0.0)
    run_stack(meta, V, rng, cov)
    if os.path.exists(os.path.join(os.path.dirname(os.path.abspath(__file__)), "c04_chiplets.py")):
        import c04_chiplets
        c04_chiplets.run(meta, V, rng, cov)
    c = V.counts()
    n_obl = len(V.obligations)
    samples = [o for o in V.obligations if o["status"] != "discharged"][:6] + V.obligations[:4]
    coverage = dict(
        obligations=n_obl - c.get("known-finding", 0),
        discharged=c.get("discharged", 0),
        known_findings=c.get("known-finding", 0),
        inconclusive=c.get("inconclusive", 0),
        checker_cmd="python3-vt checks/c04.py (z3 %s via python API; encoding regenerated from /repo/air by engines/airsym)" % __import__("z3").get_version_string(),
        trusted_base=["z3", "field axioms: " + "; ".join(AXIOMS), "spec table spec/ops.py (transcribed from docs/src/design/stack)",
                      "range-check assumption h0..h3 < 2^16 for u32 operations (discharged separately by the range-checker obligations)"],
        evaluations=n_obl,
        distinct_nontrivial=c.get("discharged", 0),
        rule="one obligation per (operation variant, enforced cell); non-trivial = discharged by the solver as unsat after a satisfiable vacuity witness",
        samples=samples,
        functions_encoded=["miden_air::ProcessorAir::evaluate_transition::<Sym> (real code, symbolic field type)",
                           "stack::enforce_constraints, op_flags::OpFlags::new, overflow/system_ops/field_ops/stack_manipulation/u32_ops/io_ops::enforce_constraints",
                           "range::enforce_constraints, chiplets::enforce_constraints"],
        bounds="one arbitrary row pair per query (no other bound); bitwise: 8 chained rows",
        queries=cov["queries"],
        solver_time_s=round(cov["solver_time_s"], 2),
        operations=cov.get("operations"),
        variants=cov.get("variants"),
        sources_fingerprint=repo_fingerprint(["air/src", "core/src/operations"]),
        traces_validated_against_impl=cov.get("native_validated", 0),
        explanation="per-row soundness of the stack/system/range/chiplet transition constraints against the documented operation semantics",
    )
    write_evidence(PROP, "proof", coverage,
                   ["winterfell STARK soundness", "decoder constraints (op bits binary, is_loop/is_call flags) are not part of this AIR version and are assumed",
                    "fmul axioms (see trusted_base)"], time.time() - t0, violations=len(V.violations))
    V.finish()


if __name__ == "__main__":
    main()
