"""C07, memory clause: "Each execution context has its own memory: reading a never-written address
yields zeros, a read returns the last word written to that address in the same context (an element
store changes only element 0 of the word)" - and nothing else changes (context isolation).

Engine C on the MIR of miden-processor: the functions the memory operations call -
Chiplets::read_mem / read_mem_double / write_mem / write_mem_double / write_mem_element / get_mem_value,
Memory::read / write / get_value / get_old_value, MemorySegmentTrace::read / write / get_value and their
closures - are executed on a fresh memory for every sequence of <= k accesses (k = 3 quick, 4 thorough)
over {read, write, element store, double read, double write}; context ids, addresses, stored words and
the clock are symbolic.  The two nested BTreeMaps are modelled as association lists whose key
comparisons are solver decisions (a fork per comparison), so all aliasing patterns between the
accesses (same / different context, same / different address, addr+1 meeting another address) are
explored.  Decided per path:
  M1  no panic;
  M2  every word returned by a read, every old word returned by an element store, and the word seen by a
      final probe at an arbitrary (context, address) equal the reference "last write to the same
      (context, address) wins, zeros before the first write, element store replaces element 0 only";
  M3  the number of trace rows grows by one per word access.
Counterexamples are replayed on the memory of a real Process (replay job `mem_seq`)."""
import itertools
import os
import re
import sys

import z3

sys.path.insert(0, os.path.join(os.path.dirname(os.path.abspath(__file__)), "..", "lib"))
import masmsym  # noqa: E402
import mirsym  # noqa: E402
import opsum  # noqa: E402
import procmodel as pm  # noqa: E402
import rustlib  # noqa: E402
from common import REPO, save_replay, tier  # noqa: E402
from field import P, Lin  # noqa: E402
from mir_parse import Unsupported  # noqa: E402
from mirsym import En, F, I, Opaque, Ref, Struct, UNIT  # noqa: E402

PROP = "C07"


class AMap:
    """BTreeMap as an association list [key, value]; keys are u32 / ContextId(u32)"""

    def __init__(self):
        self.items = []


class Entry:
    def __init__(self, amap, key, idx):
        self.amap, self.key, self.idx = amap, key, idx


def key_int(k):
    k = pm.deref(k)
    if isinstance(k, Struct):
        k = k[0]
    if isinstance(k, En):
        k = k.fields[0]
    if not isinstance(k, I):
        raise Unsupported(f"map key {k!r}")
    return k.v


def lookup(it, amap, key):
    kv = key_int(key)
    for i, (k2, _) in enumerate(amap.items):
        k2v = key_int(k2)
        same = (kv == k2v)
        if isinstance(same, bool):
            if same:
                return i
            continue
        if it.decide(same):
            return i
    return None


def default_of(it, ty):
    c = [n for n, f in it.fns.items() if n.endswith("::default") and (f.ret or "").strip() == ty]
    if len(c) != 1:
        raise Unsupported(f"Default impl of {ty} not found uniquely: {c}")
    return it.run_fn(it.fns[c[0]].parsed(), [])


def natives():
    def n_map_new(it, a, d, m):
        return AMap()

    def n_entry(it, a, d, m):
        amap = pm.deref(a[0])
        return Entry(amap, a[1], lookup(it, amap, a[1]))

    def n_or_default(it, a, d, m):
        e = pm.deref(a[0])
        if e.idx is None:
            e.amap.items.append([e.key, default_of(it, m.group(1).strip())])
            e.idx = len(e.amap.items) - 1
        return Ref(e.amap.items[e.idx], 1)

    def n_and_modify(it, a, d, m):
        e = pm.deref(a[0])
        if e.idx is not None:
            fn = rustlib.closure_fn(it, m.group(1))
            rustlib.call_closure(it, fn, a[1], [Ref(e.amap.items[e.idx], 1)])
        return e

    def n_or_insert_with(it, a, d, m):
        e = pm.deref(a[0])
        if e.idx is None:
            fn = rustlib.closure_fn(it, m.group(1))
            v = rustlib.call_closure(it, fn, a[1], [])
            e.amap.items.append([e.key, v])
            e.idx = len(e.amap.items) - 1
        return Ref(e.amap.items[e.idx], 1)

    def n_get(it, a, d, m):
        amap = pm.deref(a[0])
        i = lookup(it, amap, a[1])
        return En("None", [], ty="Option") if i is None else En("Some", [Ref(amap.items[i], 1)], ty="Option")

    def n_last(it, a, d, m):
        l = pm.deref(a[0])
        return En("Some", [Ref(l, len(l) - 1)], ty="Option") if l else En("None", [], ty="Option")

    def n_option_map(it, a, d, m):
        o = pm.deref(a[0])
        if o.variant != "Some":
            return En("None", [], ty="Option")
        fn = rustlib.closure_fn(it, m.group(1))
        return En("Some", [rustlib.call_closure(it, fn, a[1], [o.fields[0]])], ty="Option")

    def n_unwrap_or(it, a, d, m):
        o = pm.deref(a[0])
        return o.fields[0] if o.variant == "Some" else a[1]

    def n_box_uninit(it, a, d, m):
        # Box<MaybeUninit<[T; N]>>: box.0.0 is the pointer, (*ptr).1.0.0 the array written by `vec![..]`
        cell = Struct()
        inner = Struct()
        inner[0] = Struct()
        cell[1] = inner
        holder = {"cell": cell}
        b = Struct()
        b[0] = Struct()
        b[0][0] = Ref(holder, "cell")
        return b

    def n_box_into_vec(it, a, d, m):
        cell = pm.deref(pm.deref(a[0])[0][0])
        return list(cell[1][0][0])

    R = re.compile
    return [
        (R(r"<(?:std::collections::)?BTreeMap<.*> as Default>::default|(?:std::collections::)?BTreeMap::<.*>::new"), n_map_new),
        (R(r"<(u8|u16|u32|u64|usize) as Default>::default"), lambda it, a, d, m: I(0, m.group(1))),
        (R(r"(?:std::collections::)?BTreeMap::<.*>::entry"), n_entry),
        (R(r"(?:std::collections::)?btree_map::Entry::<'_, [^,]*, (.*)>::or_default"), n_or_default),
        (R(r"(?:std::collections::)?btree_map::Entry::<'_, .*>::and_modify::<\{closure@([^}]*)\}>"), n_and_modify),
        (R(r"(?:std::collections::)?btree_map::Entry::<'_, .*>::or_insert_with::<\{closure@([^}]*)\}>"), n_or_insert_with),
        (R(r"(?:std::collections::)?BTreeMap::<.*>::get::<.*>"), n_get),
        (R(r"core::slice::<impl \[.*\]>::last"), n_last),
        (R(r"core::slice::<impl \[.*\]>::first"), lambda it, a, d, m: (En("Some", [Ref(pm.deref(a[0]), 0)], ty="Option") if pm.deref(a[0]) else En("None", [], ty="Option"))),
        (R(r"Option::<.*>::map::<.*\{closure@([^}]*)\}>"), n_option_map),
        (R(r"Option::<.*>::unwrap_or"), n_unwrap_or),
        (R(r"Box::<\[.*; \d+\]>::new_uninit"), n_box_uninit),
        (R(r"(?:std|alloc)::boxed::box_assume_init_into_vec_unsafe::<.*>"), n_box_into_vec),
    ]


# ---- sequences -----------------------------------------------------------------------------------------
OPS_Q = ["read", "write", "write_elem"]
OPS_ALL = ["read", "write", "write_elem", "read2", "write2"]


def sequences():
    out = []
    if tier() == "thorough":
        for k in (1, 2, 3):
            out += [list(s) for s in itertools.product(OPS_ALL, repeat=k)]
        out += [list(s) for s in itertools.product(OPS_Q, repeat=4)]
    else:
        for k in (1, 2, 3):
            out += [list(s) for s in itertools.product(OPS_Q, repeat=k)]
        out += [["write2", "read"], ["write", "read2"], ["write2", "read2"], ["write2", "write_elem", "read"], ["write", "write2", "read2"],
                ["write_elem", "write2", "read"], ["read2", "write", "read"], ["write2", "write", "read2"]]
    return out


def fresh_word(it, name):
    return [F(it.ctx.var(f"{name}_{i}")) for i in range(4)]


def u32(it, name, hi=2**32 - 1):
    v = z3.Int(name)
    it.assume(z3.And(v >= 0, v <= hi))
    return I(v, "u32")


def ival(ctx, e):
    e = pm.deref(e)
    if isinstance(e, F):
        return z3.IntVal(e.l.const) if e.l.is_const() else ctx.value(e.l)
    raise Unsupported(f"word element {e!r}")


class RefMem:
    """the documented semantics: list of (ctx, addr, word as z3 Ints) in program order"""

    def __init__(self):
        self.writes = []

    def read(self, c, a):
        w = [z3.IntVal(0)] * 4
        for wc, wa, ww in self.writes:
            hit = z3.And(wc == c, wa == a)
            w = [z3.If(hit, ww[i], w[i]) for i in range(4)]
        return w

    def write(self, c, a, w):
        self.writes.append((c, a, list(w)))


def find_fn(it, suffix, frag):
    c = [n for n in it.fns if n.endswith(suffix) and frag in n]
    if len(c) != 1:
        raise Unsupported(f"{suffix} not found uniquely in {frag}: {c}")
    return it.fns[c[0]].parsed()


def run_sequence(interp, seq):
    def make_run(it):
        it.begin_run(None)
        order = opsum.struct_fields(os.path.join(REPO, "processor/src/chiplets/mod.rs"), "Chiplets")
        ch = Struct()
        mem = default_of_memory(it)
        for i, nm in enumerate(order):
            val = mem if nm == "memory" else (u32(it, "clk", 2**32 - 2) if nm == "clk" else Opaque(nm))
            ch[i] = val
            ch[nm] = val
        box = {"c": ch}
        me = Ref(box, "c")
        ref = RefMem()
        checks = []  # (label, got word (interp values), expected word (z3 ints))
        jobs = []    # for the native replay: symbolic operands per op
        it.info.update(checks=checks, jobs=jobs, rows=0, mem=mem)
        frag = "processor/src/chiplets/mod.rs"

        def ctxid(v):
            s = Struct()
            s[0] = v
            return s

        def thunk():
            rows = 0
            for k, op in enumerate(seq + ["probe"]):
                c, a = u32(it, f"c{k}"), u32(it, f"a{k}", 2**32 - 2 if op in ("read2", "write2") else 2**32 - 1)
                job = dict(op=op, ctx=c.v, addr=a.v)
                if op == "read":
                    got = it.run_fn(find_fn(it, "::read_mem", frag), [me, ctxid(c), a])
                    checks.append((f"op{k} read", got, ref.read(c.v, a.v)))
                    rows += 1
                elif op == "read2":
                    got = it.run_fn(find_fn(it, "::read_mem_double", frag), [me, ctxid(c), a])
                    got = pm.deref(got)
                    checks.append((f"op{k} read2 first word", got[0], ref.read(c.v, a.v)))
                    checks.append((f"op{k} read2 second word", got[1], ref.read(c.v, a.v + 1)))
                    rows += 2
                elif op == "write":
                    w = fresh_word(it, f"w{k}")
                    job["word"] = [ival(it.ctx, x) for x in w]
                    it.run_fn(find_fn(it, "::write_mem", frag), [me, ctxid(c), a, list(w)])
                    ref.write(c.v, a.v, [ival(it.ctx, x) for x in w])
                    rows += 1
                elif op == "write2":
                    w, w2 = fresh_word(it, f"w{k}"), fresh_word(it, f"x{k}")
                    job["word"] = [ival(it.ctx, x) for x in w]
                    job["word2"] = [ival(it.ctx, x) for x in w2]
                    it.run_fn(find_fn(it, "::write_mem_double", frag), [me, ctxid(c), a, [list(w), list(w2)]])
                    ref.write(c.v, a.v, [ival(it.ctx, x) for x in w])
                    ref.write(c.v, a.v + 1, [ival(it.ctx, x) for x in w2])
                    rows += 2
                elif op == "write_elem":
                    v = F(it.ctx.var(f"e{k}"))
                    job["value"] = ival(it.ctx, v)
                    old = ref.read(c.v, a.v)
                    got = it.run_fn(find_fn(it, "::write_mem_element", frag), [me, ctxid(c), a, v])
                    checks.append((f"op{k} element store returns the old word", got, old))
                    ref.write(c.v, a.v, [ival(it.ctx, v)] + old[1:])
                    rows += 1
                else:  # probe: arbitrary (context, address), non-mutating
                    got = it.run_fn(find_fn(it, "::get_old_value", "processor/src/chiplets/memory/mod.rs"), [Ref({"m": mem}, "m"), ctxid(c), a])
                    checks.append((f"final probe at an arbitrary (context, address)", got, ref.read(c.v, a.v)))
                jobs.append(job)
            it.info["rows"] = rows
            return UNIT
        return thunk

    return interp.explore(make_run)


def default_of_memory(it):
    return default_of(it, "Memory")


def concretise(model, x):
    if isinstance(x, list):
        return [concretise(model, y) for y in x]
    if isinstance(x, z3.ExprRef):
        return str(model.eval(x, model_completion=True).as_long())
    return x


def confirm(V, cov, seq, tag, solver, res, what):
    m = solver.model()
    jobs = [{k: concretise(m, v) for k, v in j.items()} for j in res.info["jobs"]]
    nat = masmsym.native([dict(kind="mem_seq", ops=jobs)], "mem")[0]
    cov["native"] = cov.get("native", 0) + 1
    # reference on the concrete sequence
    mem = {}
    want = []
    for j in jobs:
        key = (int(j["ctx"]), int(j["addr"]))
        key2 = (key[0], key[1] + 1)
        z = ["0"] * 4
        if j["op"] in ("read", "probe"):
            want.append(mem.get(key, z))
        elif j["op"] == "read2":
            want.append([mem.get(key, z), mem.get(key2, z)])
        elif j["op"] == "write":
            mem[key] = list(j["word"])
            want.append(None)
        elif j["op"] == "write2":
            mem[key], mem[key2] = list(j["word"]), list(j["word2"])
            want.append(None)
        else:
            old = mem.get(key, z)
            mem[key] = [j["value"]] + list(old[1:])
            want.append(old)
    n_rows = sum(2 if j["op"] in ("read2", "write2") else (0 if j["op"] == "probe" else 1) for j in jobs)
    bad = nat.get("status") != "ok" or nat.get("results") != want or nat.get("rows") != n_rows
    rep = dict(kind="mem_seq", property=PROP, ops=jobs, native=nat, expected=dict(results=want, rows=n_rows), obligation=tag)
    if bad:
        path = save_replay(PROP, re.sub(r"[^A-Za-z0-9_]", "_", tag)[:70], rep)
        V.violation(tag, path, f"memory accesses {jobs}: {what}; native: {nat}; documented: {want}, {n_rows} rows", key=f"memory:{'-'.join(seq)}")
    else:
        V.add(tag, "inconclusive", detail=f"{what} in the encoding, but the native memory behaves as documented on the model's sequence")


def check_seq(interp, seq, V, cov):
    name = "memory[" + ",".join(seq) + "]"
    try:
        paths = run_sequence(interp, seq)
    except Unsupported as e:
        V.add(name, "inconclusive", detail=f"outside the interpreter's subset: {e}")
        return
    except mirsym.PathLimit as e:
        V.add(name, "inconclusive", detail=f"path cap exceeded: {e}")
        return
    cov["paths"] += len(paths)
    cov["mem_paths"] = cov.get("mem_paths", 0) + len(paths)
    for pi, res in enumerate(paths):
        tag = f"{name}#p{pi}"
        s = z3.Solver()
        s.set("timeout", 60000)
        s.add(res.ctx.side)
        s.add(res.pc)
        cov["mem_queries"] = cov.get("mem_queries", 0) + 1
        if s.check() != z3.sat:
            continue
        if res.outcome != "ok":
            confirm(V, cov, seq, f"{tag}: M1", s, res, f"panic ({res.value})")
            continue
        conj = []
        try:
            for label, got, want in res.info["checks"]:
                got = pm.deref(got)
                if len(got) != 4:
                    conj.append(z3.BoolVal(False))
                    continue
                for g, w in zip(got, want):
                    conj.append(ival(res.ctx, g) == w)
            rows = pm.deref(res.info["mem"])
            rows = rows[1] if 1 in rows else rows["num_trace_rows"]
            rows = rows.v if isinstance(rows, I) else rows
            conj_rows = (rows == res.info["rows"]) if not isinstance(rows, int) else z3.BoolVal(rows == res.info["rows"])
        except Unsupported as e:
            V.add(tag, "inconclusive", detail=str(e))
            continue
        for what, post, lab in ((f"M2 {len(res.info['checks'])} returned words = last write to the same (context, address), zeros before", z3.And(conj + [z3.BoolVal(True)]), "a returned word differs from the documented memory semantics"),
                                (f"M3 {res.info['rows']} trace rows", conj_rows, "the number of memory trace rows differs from the number of word accesses")):
            s.push()
            s.add(z3.Not(post))
            r = s.check()
            cov["mem_queries"] += 1
            if r == z3.unsat:
                V.add(f"{tag}: {what}", "discharged")
            elif r == z3.sat:
                confirm(V, cov, seq, f"{tag}: {what[:2]}", s, res, lab)
            else:
                V.add(f"{tag}: {what}", "inconclusive", detail="solver unknown")
            s.pop()


def run(V, cov):
    fns = opsum.load_fns("processor", "internals", refresh=False)
    consts = pm.base_consts(REPO)
    interp = mirsym.Interp(fns, natives() + rustlib.NATIVES + pm.NATIVES, consts, max_paths=3000)
    only = [a for a in sys.argv[1:] if a.startswith("mem:")]
    for seq in sequences():
        if only and "mem:" + ",".join(seq) not in only:
            continue
        check_seq(interp, seq, V, cov)
