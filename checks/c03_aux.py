"""C03 (auxiliary column p1, per row): the stack's overflow-table column builder agrees with the AIR's
own shift flags and with the overflow-table semantics.
For every 7-bit opcode pattern (op bits and the two degree-reduction cells concrete, every other cell
of the row pair symbolic) the MIR of
    miden-air   MainTrace::{is_left_shift, is_right_shift, is_non_empty_overflow, clk, stack_element, parent_overflow_address}
    processor   stack::aux_trace::AuxTraceBuilder::{get_requests_at, get_responses_at}, OverflowTableRow::{new, to_value}
is executed and z3 decides, per path:
    A1 a row is added   (response != 1) exactly when the AIR's right_shift flag of that row is 1, and the
       row is (clk, s15, b1);
    A2 a row is removed (request  != 1) exactly when the AIR's left_shift flag is 1 and the depth b0 > 16,
       and the row is (b1, s15', b1').
The AIR flags come from the real OpFlags (Engine A, job `opflags`)."""
import os
import re
import sys
import time

import z3

sys.path.insert(0, os.path.join(os.path.dirname(os.path.abspath(__file__)), "..", "lib"))
import airq  # noqa: E402
import mirsym  # noqa: E402
import opsum  # noqa: E402
import procmodel as pm  # noqa: E402
from common import REPO, save_replay  # noqa: E402
from field import P, FieldCtx, Lin, load_dag  # noqa: E402
from mir_parse import Unsupported  # noqa: E402
from mirsym import En, F, I, Opaque, Ref, Struct, UNIT  # noqa: E402

PROP = "C03"


class Columns:
    """ColMatrix<Felt> restricted to rows i (current) and i+1 (next) of a symbolic row pair"""

    def __init__(self, it, consts):
        self.it, self.consts = it, consts

    def cell(self, col, row):
        if row == 0 and col in self.consts:
            return F(Lin({}, self.consts[col]))
        return F(self.it.ctx.var(("c" if row == 0 else "n") + str(col)))

    def column(self, col):
        return [self.cell(col, 0), self.cell(col, 1)]


def natives():
    def n_get(it, a, d, m):
        cm = pm.deref(a[0])
        return cm.cell(a[1].v, a[2].v)

    def n_get_column(it, a, d, m):
        cm = pm.deref(a[0])
        return cm.column(a[1].v)

    def n_arr_eq(it, a, d, m):
        x, y = pm.deref(a[0]), pm.deref(a[1])
        for p, q in zip(x, y):
            p, q = pm.deref(p), pm.deref(q)
            if not it.decide(it.ctx.eq(p.l, q.l)):
                return False
        return True

    def n_mul_base(it, a, d, m):
        return F(it.ctx.mul(pm.deref(a[0]).l, pm.deref(a[1]).l))

    def n_add(it, a, d, m):
        return F(pm.deref(a[0]).l + pm.deref(a[1]).l)

    def n_assign(op):
        def h(it, a, d, m):
            r = a[0]
            x, y = pm.deref(r).l, pm.deref(a[1]).l
            while isinstance(r.get(), Ref):
                r = r.get()
            r.set(F(x + y if op == "add" else (x - y if op == "sub" else it.ctx.mul(x, y))))
            return UNIT
        return h

    def n_sub(it, a, d, m):
        return F(pm.deref(a[0]).l - pm.deref(a[1]).l)

    def n_mul(it, a, d, m):
        return F(it.ctx.mul(pm.deref(a[0]).l, pm.deref(a[1]).l))

    def n_mul_small(it, a, d, m):
        return F(pm.deref(a[0]).l.scale(a[1].v))

    def n_op_code(it, a, d, m):
        op = pm.deref(a[0])
        codes = getattr(it, "opcodes", None)
        if codes is None:
            it.opcodes = codes = {o["name"]: o["opcode"] for o in airq.get_meta().raw["ops"]}
        return I(codes[op.variant], "u8")

    def n_range(it, a, d, m):
        st = Struct()
        st[0], st[1] = a[0], I(a[0].v + a[1].v, "usize")
        return st

    return [
        (re.compile(r"(?:\w+::)*Operation::op_code"), n_op_code),
        (re.compile(r"Option::<.*>::unwrap_or"), lambda it, a, d, m: pm.deref(a[0]).fields[0] if pm.deref(a[0]).variant == "Some" else a[1]),
        (re.compile(r"miden_core::utils::range|(?:\w+::)*utils::range"), n_range),
        (re.compile(r"(?:\w+::)*ColMatrix::<Felt>::get"), n_get),
        (re.compile(r"(?:\w+::)*ColMatrix::<Felt>::get_column"), n_get_column),
        (re.compile(r"<\[Felt; \d+\] as PartialEq>::eq|core::array::equality::<impl PartialEq<\[Felt; \d+\]> for \[Felt; \d+\]>::eq"), n_arr_eq),
        (re.compile(r"<E as ExtensionOf<Felt>>::mul_base"), n_mul_base),
        (re.compile(r"<E as (?:std::ops::)?Add>::add"), n_add),
        (re.compile(r"Felt::mul_small"), n_mul_small),
        (re.compile(r"<E as (?:std::ops::)?AddAssign>::add_assign"), n_assign("add")),
        (re.compile(r"<E as (?:std::ops::)?SubAssign>::sub_assign"), n_assign("sub")),
        (re.compile(r"<E as (?:std::ops::)?MulAssign>::mul_assign"), n_assign("mul")),
        (re.compile(r"<E as (?:std::ops::)?Sub>::sub"), n_sub),
        (re.compile(r"<E as (?:std::ops::)?Mul>::mul"), n_mul),
    ]


def make_interp():
    air = opsum.load_fns("air", features=None)
    proc = opsum.load_fns()
    fns = dict(air)
    fns.update(proc)
    consts = pm.base_consts(REPO)
    for k in ("<E as FieldElement>::ONE", "<E as miden_air::FieldElement>::ONE", "<E as winter_math::FieldElement>::ONE"):
        consts[k] = F(Lin({}, 1))
        consts[k.replace("::ONE", "::ZERO")] = F(Lin({}, 0))
    import rustlib
    # constants re-exported from miden-crypto's Rpo256 (not part of the dumped crates)
    rng = Struct()
    rng[0], rng[1] = I(4, "usize"), I(8, "usize")
    for pref in ("miden_core::chiplets::hasher::Hasher::", "Hasher::", "miden_crypto::hash::rpo::Rpo256::"):
        consts[pref + "DIGEST_RANGE"] = rng
        consts[pref + "STATE_WIDTH"] = I(12, "usize")
        consts[pref + "NUM_ROUNDS"] = I(7, "usize")
    return mirsym.Interp(fns, natives() + opsum.EXTRA_NATIVES + pm.NATIVES + rustlib.NATIVES, consts, max_paths=64)


def run_builder(interp, fn_suffix, cell_consts):
    fn = [n for n in interp.fns if n.endswith("::" + fn_suffix) and "stack/aux_trace.rs" in n]
    assert len(fn) == 1, fn

    def make_run(it):
        it.begin_run(None)
        cm = Columns(it, cell_consts)
        mt = Struct()
        mt[0] = cm
        alphas = [F(it.ctx.var(f"al{i}")) for i in range(4)]
        it.info["alphas"] = alphas
        return lambda: it.run_fn(it.fns[fn[0]].parsed(), [Opaque("builder"), Ref({"m": mt}, "m"), alphas, I(0, "usize")])

    return interp.explore(make_run)



def lin_of_root(ctx, arena, root):
    return load_dag(ctx, arena, [root])[0]


def check_opcode(interp, meta, op, V, cov):
    c = meta.cols
    consts = {int(k): v for k, v in meta.opcode_consts(op).items()}
    fl = airq.run_jobs([{"kind": "opflags", "name": f"flags{op}", "cur": meta.opcode_consts(op)}], "c03_aux")[0]
    ST, B0, B1, H0, CLK = c["STACK"], c["B0"], c["B1"], c["H0"], c["CLK"]
    name = next((n for n, o in meta.ops.items() if o["opcode"] == op), f"opcode{op}")
    for which, suffix in (("response", "get_responses_at"), ("request", "get_requests_at")):
        try:
            paths = run_builder(interp, suffix, consts)
        except Unsupported as e:
            V.add(f"aux-p1:{name}:{which}", "inconclusive", detail=str(e))
            continue
        cov["paths"] += len(paths)
        for pi, res in enumerate(paths):
            tag = f"aux-p1:{name}[{op}]:{which}#p{pi}"
            if res.outcome != "ok":
                V.add(tag, "inconclusive", detail=str(res.value)[:200])
                continue
            ctx = res.ctx
            L, R = (lin_of_root(ctx, fl["arena"], fl["roots"][k]) for k in (0, 1))
            al = [x.l for x in res.info["alphas"]]
            cur = lambda col: ctx.var(f"c{col}")  # noqa: E731
            nxt = lambda col: ctx.var(f"n{col}")  # noqa: E731
            Vv = ctx.value
            # honest row: decoder flag cells binary, depth >= 16, h0 = 1/(b0-16) or 0
            loopflag = c["DECODER"] + c["IS_LOOP_FLAG"] if "IS_LOOP_FLAG" in c else None
            assume = [Vv(cur(B0)) >= 16, Vv(cur(B0)) < 2**32,
                      z3.If(Vv(cur(B0)) == 16, Vv(cur(H0)) == 0, ctx.eq(ctx.mul(cur(B0) - Lin({}, 16), cur(H0)), Lin({}, 1)))]
            for col in res.info.get("flag_cells", []):
                assume.append(z3.Or(Vv(cur(col)) == 0, Vv(cur(col)) == 1))
            # every symbolic current-row cell the AIR flag depends on is a decoder flag cell: binary on honest rows
            for vname in set(L.terms) | set(R.terms):
                if vname.startswith("c") and vname[1:].isdigit():
                    assume.append(z3.Or(Vv(ctx.var(vname)) == 0, Vv(ctx.var(vname)) == 1))
            got = res.value.l
            if which == "response":
                row = al[0] + ctx.mul(al[1], cur(CLK)) + ctx.mul(al[2], cur(ST + 15)) + ctx.mul(al[3], cur(B1))
                post = z3.And(z3.Or(Vv(R) == 0, Vv(R) == 1),
                              z3.Implies(Vv(R) == 1, ctx.eq(got, row)), z3.Implies(Vv(R) == 0, ctx.eq(got, Lin({}, 1))))
                label = "a row (clk, s15, b1) is added exactly when the AIR's right_shift flag is set"
            else:
                row = al[0] + ctx.mul(al[1], cur(B1)) + ctx.mul(al[2], nxt(ST + 15)) + ctx.mul(al[3], nxt(B1))
                rem = z3.And(Vv(L) == 1, Vv(cur(B0)) != 16)
                post = z3.And(z3.Or(Vv(L) == 0, Vv(L) == 1), z3.Implies(rem, ctx.eq(got, row)), z3.Implies(z3.Not(rem), ctx.eq(got, Lin({}, 1))))
                label = "the row (b1, s15', b1') is removed exactly when the AIR's left_shift flag is set and the depth exceeds 16"
            s = z3.Solver()
            s.set("timeout", 30000)
            s.add(ctx.side)
            s.add(res.pc)
            s.add(assume)
            cov["queries"] += 1
            if s.check() == z3.unsat:
                continue
            s.add(z3.Not(post))
            r = s.check()
            cov["queries"] += 1
            if r == z3.unsat:
                V.add(f"{tag}: {label}", "discharged")
            elif r == z3.sat:
                m = s.model()
                env = {k: m.eval(v, model_completion=True).as_long() for k, v in ctx.atoms.items() if k[0] in "cn" and k[1:].isdigit()}
                path = save_replay(PROP, f"aux_p1_{name}_{which}_{pi}", dict(kind="aux_p1", opcode=op, name=name, which=which, cells=env,
                                                                              left_shift=str(m.eval(Vv(L), model_completion=True)), right_shift=str(m.eval(Vv(R), model_completion=True)),
                                                                              builder_value=str(got)))
                cov["cands"].append((f"{tag}: {label}", path, name, which, str(got) == "1" or got.is_const()))
            else:
                V.add(f"{tag}: {label}", "inconclusive", detail="solver unknown")


def check_no_halt(interp, meta, V, cov):
    """a trace whose executed cycles leave no room for a HALT row (2^k - 1 cycles + the random row): the
    block hash table's initial value must be built without panicking, from the END row of the root block"""
    fn = [n for n in interp.fns if n.endswith("::init_responses") and "decoder/aux_trace/block_hash_table.rs" in n]
    if len(fn) != 1:
        V.add("aux-p2:init without a HALT row", "inconclusive", detail=f"init_responses not found uniquely: {fn}")
        return
    c = meta.cols
    NROWS = 8
    end_bits = {int(k): v for k, v in meta.opcode_consts(meta.ops["End"]["opcode"]).items()}
    span_bits = {int(k): v for k, v in meta.opcode_consts(meta.ops["Span"]["opcode"]).items()}

    class NoHalt(Columns):
        """8 rows: SPAN, 5 x NOOP, END, random row - no HALT anywhere"""

        def cell(self, col, row):
            bits = span_bits if row == 0 else (end_bits if row == NROWS - 2 else {k: 0 for k in end_bits})
            # (the random row's cells in the op-bit columns are taken as 0: random field elements spell the HALT
            # opcode only with negligible probability)
            if col in bits:
                return F(Lin({}, bits[col] if row < NROWS - 1 else 0))
            return F(self.it.ctx.var(f"t{row}_{col}"))

        def column(self, col):
            return [self.cell(col, r) for r in range(NROWS)]

    def n_num_rows(it, a, d, m):
        return I(NROWS, "usize")

    saved = interp.natives
    interp.natives = [(re.compile(r"(?:\w+::)*MainTrace::num_rows|(?:\w+::)*ColMatrix::<Felt>::num_rows"), n_num_rows)] + saved

    def make_run(it):
        it.begin_run(None)
        mt = Struct()
        mt[0] = NoHalt(it, {})
        alphas = [F(it.ctx.var(f"al{i}")) for i in range(8)]
        it.info["alphas"] = alphas
        return lambda: it.run_fn(it.fns[fn[0]].parsed(), [Opaque("builder"), Ref({"m": mt}, "m"), alphas])
    try:
        paths = interp.explore(make_run)
    except Unsupported as e:
        V.add("aux-p2:init without a HALT row", "inconclusive", detail=str(e)[:300])
        return
    finally:
        interp.natives = saved
    DH = c["HASHER_STATE"]
    for pi, res in enumerate(paths):
        tag = f"aux-p2:init without a HALT row#p{pi}"
        if res.outcome != "ok":
            path = save_replay(PROP, "aux_p2_no_halt", dict(kind="no_halt", outcome=str(res.value)[:300]))
            nat = confirm_no_halt()
            if nat:
                V.violation(tag, path, f"building the block hash table column panics when the trace has no HALT row ({str(res.value)[:120]}); native: {nat}", key="aux-p2:no-halt")
            else:
                V.add(tag, "inconclusive", detail=f"panic path in the encoding ({str(res.value)[:120]}), not reproduced natively")
            continue
        ctx = res.ctx
        al = [x.l for x in res.info["alphas"]]
        want = al[0]
        for i in range(4):
            want = want + ctx.mul(al[2 + i], ctx.var(f"t{NROWS-2}_{DH+i}"))
        goal = z3.Not(ctx.eq(res.value.l, want))
        s = z3.Solver()
        s.set("timeout", 30000)
        s.add(ctx.side)
        s.add(res.pc)
        s.add(goal)
        r = s.check()
        cov["queries"] += 1
        V.add(f"{tag}: the initial value is built from the program hash in the END row of the root block", "discharged" if r == z3.unsat else "inconclusive",
              detail=None if r == z3.unsat else f"solver {r}")


def confirm_no_halt():
    import masmsym
    src = "begin push.1 while.true repeat.80 push.1 drop end push.0 end end"  # 255 cycles
    try:
        nat = masmsym.native([{"kind": "trace_check", "source": src, "stack": [], "advice": [], "aux": True}], "c03nh")[0]
    except Exception as e:  # the replay binary dies with the panic of the aux-segment builder
        return f"`{src}` (255 cycles): building the auxiliary segment panics ({str(e)[:80]})"
    return None


def run(meta, V, cov_out):
    """all 7-bit opcodes that name an operation (incl. control operations)"""
    interp = make_interp()
    cov = dict(paths=0, queries=0, cands=[])
    ops = sorted(o["opcode"] for o in meta.ops.values())
    for op in ops:
        check_opcode(interp, meta, op, V, cov)
    check_no_halt(interp, meta, V, cov)
    # a disagreement between the builder's predicate and the AIR's flag is confirmed natively by
    # executing a program that reaches such a row and evaluating the aux boundary assertions
    for name_, path, opname, which, builder_says_one in cov["cands"]:
        confirmed = confirm_native(opname)
        if confirmed:
            V.violation(name_, path, f"{name_}; native: {confirmed}", key=f"aux-p1:{opname}:{which}")
        else:
            V.add(name_, "inconclusive", detail="solver counterexample; no native program reproduced it")
    cov_out["aux_p1_paths"] = cov["paths"]
    cov_out["aux_p1_queries"] = cov["queries"]
    cov_out["aux_p1_opcodes"] = len(ops)


AUX_PROGRAMS = {
    # programs that execute the named operation with more than 16 items on the stack (overflow table in use)
    "End": ["begin push.1 push.2 push.1 while.true push.3 drop push.0 end drop drop end"],
    "Repeat": ["begin push.1 push.2 push.1 while.true push.1 push.0 swap drop dup.1 drop push.0 end drop drop end",
               "begin push.5 push.1 push.1 while.true push.0 end drop drop end"],
    "Loop": ["begin push.1 push.2 push.0 while.true push.1 end drop drop end"],
    "Split": ["begin push.1 push.2 push.1 if.true push.3 drop else push.4 drop end drop drop end"],
}


def confirm_native(opname):
    import masmsym
    progs = AUX_PROGRAMS.get(opname, [f"begin push.1 push.2 push.3 push.4 {opname.lower()} end"])
    for src in progs:
        nat = masmsym.native([{"kind": "trace_check", "source": src, "stack": [], "advice": [], "aux": True}], "c03aux")[0]
        if nat.get("status") == "ok" and (nat.get("bad_aux_assertions") or nat.get("aux_nonzero")):
            return f"`{src}`: {nat.get('bad_aux_assertions')} auxiliary boundary assertion(s) fail on the real trace"
    return None


if __name__ == "__main__":
    from common import Verdict
    meta = airq.get_meta()
    V = Verdict(PROP)
    cov = {}
    t0 = time.time()
    run(meta, V, cov)
    print(V.counts(), cov, time.time() - t0)
    for o in V.obligations:
        if o["status"] != "discharged":
            print(o)
    for v in V.violations:
        print("VIOLATION", v)
