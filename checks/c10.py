"""C10 (fixed-layout data types) — serialise / deserialise round trips.
Engine C on the MIR of miden-core: for an ARBITRARY valid value of StackInputs (k elements),
StackOutputs (16..18 elements with the matching overflow addresses), Kernel (k procedure hashes) and
ProgramInfo, the real write_into followed by the real read_from yields an equal value and consumes
exactly the written bytes.  (The direction bytes -> value -> bytes is C19.)"""
import os
import sys
import time

import z3

sys.path.insert(0, os.path.dirname(os.path.abspath(__file__)))
import c19  # noqa: E402
from c19 import Reader, equal_values, mirsym, mp, opsum, pm  # noqa: E402
from common import REPO, Verdict, repo_fingerprint, save_replay, seed, tier, write_evidence  # noqa: E402
from field import P, Lin  # noqa: E402
from mir_parse import Unsupported  # noqa: E402
from mirsym import En, F, I, Ref, Struct  # noqa: E402

PROP = "C10"


def felt(it, name):
    return F(it.ctx.var(name))


def digest(it, name):
    return [felt(it, f"{name}_{i}") for i in range(4)]


def u64_felt(it, name):
    v = z3.Int(name)
    it.assume(z3.And(v >= 0, v < P))
    return I(v, "u64")


def make_value(it, ty, k):
    def struct(path, sname, vals):
        order = opsum.struct_fields(os.path.join(REPO, path), sname)
        st = Struct()
        for i, n in enumerate(order):
            st[i] = vals[n]
            st[n] = vals[n]
        return st
    if ty == "StackInputs":
        return struct("core/src/stack/inputs.rs", "StackInputs", dict(values=[felt(it, f"v{i}") for i in range(k)]))
    if ty == "StackOutputs":
        n = 16 + k
        return struct("core/src/stack/outputs.rs", "StackOutputs",
                      dict(stack=[u64_felt(it, f"s{i}") for i in range(n)], overflow_addrs=[u64_felt(it, f"a{i}") for i in range(k + 1 if k else 0)]))
    if ty == "Kernel":
        st = Struct()
        st[0] = [digest(it, f"h{i}") for i in range(k)]
        return st
    if ty == "ProgramInfo":
        kern = Struct()
        kern[0] = [digest(it, f"h{i}") for i in range(k)]
        return struct("core/src/program/info.rs", "ProgramInfo", dict(program_hash=digest(it, "ph"), kernel=kern))
    raise ValueError(ty)


def native_roundtrip(ty, k, model):
    """the model's value pushed through the real constructors, to_bytes and read_from_bytes"""
    def g(name):
        v = model.eval(z3.Int(name), model_completion=True)
        return str(v.as_long() % P)
    job = dict(kind="roundtrip", type=ty)
    if ty == "StackInputs":
        job["values"] = [g(f"v{i}") for i in range(k)]
    elif ty == "StackOutputs":
        job["stack"] = [g(f"s{i}") for i in range(16 + k)]
        job["overflow_addrs"] = [g(f"a{i}") for i in range(k + 1 if k else 0)]
    else:
        job["hashes"] = [g(f"h{i}_{j}") for i in range(k) for j in range(4)]
        job["program_hash"] = [g(f"ph_{j}") for j in range(4)]
    return job, c19.masmsym.native([job], "rt")[0]


def report(V, tag, ty, k, pi, solver, what, key):
    job, nat = native_roundtrip(ty, k, solver.model())
    if nat.get("status") == "panic" or (nat.get("status") == "ok" and not nat.get("equal")):
        path = save_replay(PROP, f"{ty}_{k}_{pi}", dict(job=job, native=nat))
        V.violation(tag, path, f"{what}; native round trip: {nat}", key=key)
    else:
        V.add(tag, "inconclusive", detail=f"{what} in the encoding, but the native round trip of the model's value gives {nat}")


def check(interp, ty, k, V, cov):
    frag = c19.TYPES[ty][0]
    rf = [n for n in interp.fns if n.endswith("::read_from") and frag in n]
    wf = [n for n in interp.fns if n.endswith("::write_into") and frag in n]

    def make_run(it):
        it.begin_run(None)
        val = make_value(it, ty, k)
        it.info["val"] = val

        def thunk():
            w = []
            it.run_fn(it.fns[wf[0]].parsed(), [Ref({"v": val}, "v"), Ref({"w": w}, "w")])
            r2 = Reader(chunks=list(w))
            res = it.run_fn(it.fns[rf[0]].parsed(), [Ref({"r": r2}, "r")])
            it.info.update(written=w, left=r2.left())
            return res
        return thunk

    try:
        paths = interp.explore(make_run)
    except Unsupported as e:
        V.add(f"{ty}[k={k}]", "inconclusive", detail=str(e))
        return
    cov["paths"] += len(paths)
    for pi, res in enumerate(paths):
        tag = f"{ty}[k={k}]#p{pi}"
        s = z3.Solver()
        s.set("timeout", 60000)
        s.add(res.ctx.side)
        s.add(res.pc)
        if s.check() != z3.sat:
            continue
        cov["queries"] += 1
        ok_shape = res.outcome == "ok" and isinstance(res.value, En) and res.value.variant == "Ok" and res.info["left"] == 0
        if not ok_shape:
            report(V, tag, ty, k, pi, s, f"{ty} with {k} element(s): a valid value does not decode back (path ends {str(res.value)[:80]})", f"{ty}:decode-back")
            continue
        post = z3.And(equal_values(res.ctx, res.info["val"], res.value.fields[0]))
        s.add(z3.Not(post))
        r = s.check()
        if r == z3.unsat:
            V.add(f"{tag}: read(write(v)) == v, all bytes consumed", "discharged")
        elif r == z3.sat:
            report(V, tag, ty, k, pi, s, f"{ty} with {k} element(s): read(write(v)) differs from v", f"{ty}:roundtrip")
        else:
            V.add(tag, "inconclusive", detail="solver unknown")


def main():
    t0 = time.time()
    V = Verdict(PROP)
    path = opsum.dump_mir("core")
    fns = mp.parse_functions(open(path).read())
    consts = pm.base_consts(REPO)
    consts.update({"stack::STACK_TOP_SIZE": I(16, "usize"), "<miden_crypto::Felt as miden_crypto::StarkField>::MODULUS": I(P, "u64"),
                   "stack::outputs::MAX_STACK_OUTPUTS_SIZE": I(65535, "usize"), "MAX_STACK_OUTPUTS_SIZE": I(65535, "usize")})
    interp = mirsym.Interp(fns, c19.natives(None), consts, max_paths=2000)
    cov = dict(paths=0, queries=0)
    sizes = {"StackInputs": [0, 1, 2, 16, 17], "StackOutputs": [0, 1, 2], "Kernel": [0, 1, 2], "ProgramInfo": [0, 1, 2]}
    if tier() == "thorough":
        sizes = {"StackInputs": list(range(0, 20)), "StackOutputs": list(range(0, 6)), "Kernel": list(range(0, 5)), "ProgramInfo": list(range(0, 5))}
    for ty, ks in sizes.items():
        for k in ks:
            check(interp, ty, k, V, cov)
    c = V.counts()
    coverage = dict(
        states=cov["paths"], transitions=c.get("discharged", 0), traces_validated_against_impl=cov.get('native', 0),
        samples=V.obligations[:6] + [o for o in V.obligations if o["status"] != "discharged"][:4],
        obligations=len(V.obligations), discharged=c.get("discharged", 0), queries=cov["queries"], sizes=sizes,
        functions_encoded=["StackInputs/StackOutputs/Kernel/ProgramInfo ::write_into and ::read_from (MIR of miden-core)"],
        bounds="element counts as listed (values arbitrary field elements / canonical u64s)",
        not_covered="program / module ASTs, compiled libraries (miden-assembly: strings, maps, recursive nodes), execution proofs (winterfell), recompilation to the same MAST root",
        sources_fingerprint=repo_fingerprint(["core/src/stack", "core/src/program/info.rs", "core/src/program/mod.rs"]),
        evaluations=len(V.obligations), distinct_nontrivial=c.get("discharged", 0), rule="one obligation per (type, element count, path)",
    )
    write_evidence(PROP, "model_checking", coverage, ["models of the winter-utils reader/writer primitives and of Felt/RpoDigest (de)serialisation"], time.time() - t0, violations=len(V.violations))
    V.finish()


if __name__ == "__main__":
    main()
