"""C02 (partial) — the statement is wired into the AIR's boundary assertions, element by element.
Engine C on the MIR of miden-air (+ miden-core accessors): for symbolic stack inputs / outputs of the
listed sizes the real
    stack::get_assertions_first_step, get_assertions_last_step,
    stack::get_aux_assertions_first_step / last_step (get_overflow_table_init / final),
    PublicInputs::to_elements (ProgramInfo / StackInputs / StackOutputs ::to_elements)
are executed and z3 decides that
  W1 the first-step assertions are exactly: stack column i = input i (0 where no input is given),
     b0 = max(16, #inputs), b1 = 0 or -1, nothing else on the stack columns;
  W2 the first-step value of the overflow-table column p1 is the product of one factor
     alpha0 + alpha1*clk + alpha2*value + alpha3*prev per overflow input, with the addresses the
     processor's OverflowTable::new_with_inputs gives them;
  W3 the last-step assertions are exactly: stack column i = output i for the 16 top outputs;
  W4 the last-step value of p1 is the product of one factor per overflow output, built from the
     overflow element and the two addresses around it - so every overflow element and every
     overflow address of the statement occurs in it;
  W5 the element list that seeds the verifier's random coin contains the program hash, every kernel
     procedure hash, every stack input, every stack output and every overflow address, in that order.
Hence a statement that differs in any single element changes the value of some assertion (main
column assertions directly; for p1 as a polynomial in the verifier's challenges)."""
import os
import re
import sys
import time

import z3

sys.path.insert(0, os.path.join(os.path.dirname(os.path.abspath(__file__)), "..", "lib"))
import airq  # noqa: E402
import mirsym  # noqa: E402
import opsum  # noqa: E402
import procmodel as pm  # noqa: E402
import rustlib  # noqa: E402
from common import REPO, Verdict, repo_fingerprint, save_replay, tier, write_evidence  # noqa: E402
from field import P, FieldCtx, Lin  # noqa: E402
from mir_parse import Unsupported  # noqa: E402
from mirsym import En, F, I, Opaque, Ref, Struct, UNIT  # noqa: E402

PROP = "C02"


def natives():
    def n_assert_single(it, a, d, m):
        st = Struct()
        st[0], st[1], st[2] = a[0], a[1], pm.deref(a[2])
        st.kind = "assertion"
        return st

    def n_mul_base(it, a, d, m):
        return F(it.ctx.mul(pm.deref(a[0]).l, pm.deref(a[1]).l))

    def n_e_bin(op):
        def h(it, a, d, m):
            x, y = pm.deref(a[0]).l, pm.deref(a[1]).l
            return F(x + y) if op == "add" else F(it.ctx.mul(x, y))
        return h

    def n_mul_assign(it, a, d, m):
        r = a[0]
        x = pm.deref(r)
        r.set(F(it.ctx.mul(x.l, pm.deref(a[1]).l)))
        return UNIT

    def n_range(it, a, d, m):
        st = Struct()
        st[0], st[1] = a[0], I(a[0].v + a[1].v, "usize")
        return st

    def n_to_elements(it, a, d, m):
        ty = m.group(1)
        c = [n for n, f in it.fns.items() if n.endswith("::to_elements") and f.args and f.args[0][1].replace("&", "").strip().endswith(ty)]
        if len(c) != 1:
            raise Unsupported(f"to_elements for {ty}: {c}")
        return it.run_fn(it.fns[c[0]].parsed(), a)

    return [
        (re.compile(r"<([\w:<>, ]+) as (?:miden_core::|vm_core::)?ToElements<Felt>>::to_elements"), n_to_elements),
        (re.compile(r"RpoDigest::as_elements"), pm.n_identity),
        (re.compile(r"Assertion::<.*>::single"), n_assert_single),
        (re.compile(r"AuxTraceRandElements::<E>::get_segment_elements"), lambda it, a, d, m: pm.deref(a[0])),
        (re.compile(r"<E as ExtensionOf<Felt>>::mul_base"), n_mul_base),
        (re.compile(r"<E as (?:std::ops::)?Add>::add"), n_e_bin("add")),
        (re.compile(r"<E as (?:std::ops::)?Mul>::mul"), n_e_bin("mul")),
        (re.compile(r"<E as (?:std::ops::)?MulAssign>::mul_assign"), n_mul_assign),
        (re.compile(r"miden_core::utils::range|(?:\w+::)*utils::range"), n_range),
    ] + rustlib.NATIVES


def make_interp():
    fns = dict(opsum.load_fns("core", features=None))
    fns.update(opsum.load_fns("air", features=None))
    consts = pm.base_consts(REPO)
    for k in ("<E as FieldElement>::ONE", "<E as miden_air::FieldElement>::ONE", "<E as winter_math::FieldElement>::ONE", "<E as miden_core::FieldElement>::ONE"):
        consts[k] = F(Lin({}, 1))
    consts["<Felt as StarkField>::MODULUS"] = I(P, "u64")
    consts["miden_crypto::WORD_SIZE"] = I(4, "usize")
    consts["WORD_SIZE"] = I(4, "usize")
    return mirsym.Interp(fns, natives() + opsum.EXTRA_NATIVES + pm.NATIVES, consts, max_paths=64)


def fn_of(interp, suffix, where):
    c = [n for n in interp.fns if n.endswith(suffix) and where in n]
    if len(c) != 1:
        raise Unsupported(f"{suffix} not found uniquely in {where}: {c}")
    return interp.fns[c[0]].parsed()


def run1(interp, build):
    """single-path run; returns (value, ctx, info)"""
    def make_run(it):
        it.begin_run(None)
        return build(it)
    paths = interp.explore(make_run)
    return paths



def decide_eq(ctx, pc, a, b):
    goal = z3.Not(ctx.eq(a, b))  # may add definitions to ctx.side: build it before the side conditions are read
    s = z3.Solver()
    s.set("timeout", 60000)
    s.add(ctx.side)
    s.add(pc)
    s.add(goal)
    return s.check()


def assertion_table(lst):
    return [(a[0].v, a[1].v if isinstance(a[1], I) else a[1], a[2]) for a in lst]


def outputs_struct(it, n, canonical=True):
    """StackOutputs with n stack elements (n >= 16) and the matching number of overflow addresses"""
    m = n - 16
    stack = [I(z3.Int(f"out{i}"), "u64") for i in range(n)]
    addrs = [I(z3.Int(f"addr{j}"), "u64") for j in range(m + 1 if m else 0)]
    for x in stack + addrs:
        it.assume(z3.And(x.v >= 0, x.v < P))
    order = opsum.struct_fields(os.path.join(REPO, "core/src/stack/outputs.rs"), "StackOutputs")
    st = Struct()
    vals = dict(stack=stack, overflow_addrs=addrs)
    for i, nme in enumerate(order):
        st[i] = vals[nme]
    return st, stack, addrs


def check_first_step(interp, k, V, cov):
    c = cov["cols"]
    fn = fn_of(interp, "stack::get_assertions_first_step", "")

    def build(it):
        ins = [F(it.ctx.var(f"in{i}")) for i in range(k)]
        res = []
        it.info.update(ins=ins, res=res)
        return lambda: it.run_fn(fn, [Ref({"r": res}, "r"), ins])
    for pi, p in enumerate(run1(interp, build)):
        tag = f"W1 first step, {k} inputs#p{pi}"
        if p.outcome != "ok":
            V.add(tag, "inconclusive", detail=str(p.value)[:200])
            continue
        tab = assertion_table(p.info["res"])
        ins = p.info["ins"]
        want = {c["STACK"] + i: (ins[i].l if i < k else Lin({}, 0)) for i in range(16)}
        want[c["B0"]] = Lin({}, max(16, k))
        want[c["B1"]] = Lin({}, 0) if k <= 16 else Lin({}, P - 1)
        cols = [t[0] for t in tab]
        ok_shape = sorted(cols) == sorted(want) and all(t[1] == 0 for t in tab)
        V.add(f"{tag}: one assertion at step 0 per stack column 0..15, b0 and b1, nothing else", "discharged" if ok_shape else "candidate", detail=str(cols))
        if not ok_shape:
            cov["cands"].append((tag, dict(kind="first_step", inputs=k, columns=cols)))
            continue
        for col, step, val in tab:
            r = decide_eq(p.ctx, p.pc, val.l, want[col])
            cov["queries"] += 1
            name = f"{tag}: column {col} is bound to " + ("input %d" % (col - c["STACK"]) if c["STACK"] <= col < c["STACK"] + min(k, 16) else "its specified constant")
            if r == z3.unsat:
                V.add(name, "discharged")
            else:
                V.add(name, "candidate" if r == z3.sat else "inconclusive")
                if r == z3.sat:
                    cov["cands"].append((name, dict(kind="first_step", inputs=k, column=col, value=str(val))))


def check_last_step(interp, n, V, cov):
    c = cov["cols"]
    fn = fn_of(interp, "stack::get_assertions_last_step", "")

    def build(it):
        so, stack, addrs = outputs_struct(it, n)
        res = []
        it.info.update(stack=stack, addrs=addrs, res=res)
        return lambda: it.run_fn(fn, [Ref({"r": res}, "r"), I(z3.Int("last_step"), "usize"), Ref({"s": so}, "s")])
    for pi, p in enumerate(run1(interp, build)):
        tag = f"W3 last step, {n} outputs#p{pi}"
        if p.outcome != "ok":
            V.add(tag, "inconclusive", detail=str(p.value)[:200])
            continue
        tab = assertion_table(p.info["res"])
        cols = [t[0] for t in tab]
        ok_shape = sorted(cols) == [c["STACK"] + i for i in range(16)] and all(str(t[1]) == "last_step" for t in tab)
        V.add(f"{tag}: one assertion at the last step per stack column 0..15", "discharged" if ok_shape else "candidate", detail=str(cols))
        if not ok_shape:
            cov["cands"].append((tag, dict(kind="last_step", outputs=n, columns=cols)))
            continue
        for col, step, val in tab:
            i = col - c["STACK"]
            goal = p.ctx.value(val.l) != p.info["stack"][i].v
            s = z3.Solver()
            s.set("timeout", 60000)
            s.add(p.ctx.side)
            s.add(p.pc)
            s.add(goal)
            r = s.check()
            cov["queries"] += 1
            name = f"{tag}: column {col} is bound to output {i}"
            V.add(name, "discharged" if r == z3.unsat else ("candidate" if r == z3.sat else "inconclusive"))
            if r == z3.sat:
                cov["cands"].append((name, dict(kind="last_step", outputs=n, column=col, value=str(val))))


def factor(ctx, al, clk, val, prev):
    return al[0] + ctx.mul(al[1], clk) + ctx.mul(al[2], val) + ctx.mul(al[3], prev)


def product(ctx, fs):
    acc = Lin({}, 1)
    for f in fs:
        acc = ctx.mul(acc, f)
    return acc


def check_aux_first(interp, k, V, cov):
    fn = fn_of(interp, "stack::get_aux_assertions_first_step", "")

    def build(it):
        ins = [F(it.ctx.var(f"in{i}")) for i in range(k)]
        al = [F(it.ctx.var(f"al{i}")) for i in range(4)]
        res = []
        it.info.update(ins=ins, al=al, res=res)
        return lambda: it.run_fn(fn, [Ref({"r": res}, "r"), Ref({"a": al}, "a"), ins])
    for pi, p in enumerate(run1(interp, build)):
        tag = f"W2 first step of p1, {k} inputs#p{pi}"
        if p.outcome != "ok" or len(p.info["res"]) != 1:
            V.add(tag, "inconclusive", detail=str(p.value)[:200])
            continue
        ctx = p.ctx
        col, step, val = assertion_table(p.info["res"])[0]
        al = [x.l for x in p.info["al"]]
        ins = [x.l for x in p.info["ins"]]
        m = max(0, k - 16)
        # the processor (OverflowTable::new_with_inputs) inserts the deepest input first, at addresses
        # -(m), -(m-1), .., -1 (mod p), each row pointing at the previous one, the first at 0
        rows = []
        prev = Lin({}, 0)
        for j in range(m):
            clk = Lin({}, (P - m + j) % P)
            rows.append(factor(ctx, al, clk, ins[k - 1 - j], prev))
            prev = clk
        r = decide_eq(ctx, p.pc, val.l, product(ctx, rows))
        cov["queries"] += 1
        name = f"{tag}: p1 starts as the product of one factor per overflow input (value, address -{m}+j, previous address)"
        V.add(name, "discharged" if r == z3.unsat else ("candidate" if r == z3.sat else "inconclusive"))
        if r == z3.sat:
            cov["cands"].append((name, dict(kind="aux_first", inputs=k, value=str(val))))
        V.add(f"{tag}: asserted at step 0 of the stack's auxiliary column", "discharged" if step == 0 else "candidate", detail=f"column {col} step {step}")


def check_aux_last(interp, n, V, cov):
    fn = fn_of(interp, "stack::get_aux_assertions_last_step", "")

    def build(it):
        so, stack, addrs = outputs_struct(it, n)
        al = [F(it.ctx.var(f"al{i}")) for i in range(4)]
        res = []
        it.info.update(stack=stack, addrs=addrs, al=al, res=res)
        return lambda: it.run_fn(fn, [Ref({"r": res}, "r"), Ref({"a": al}, "a"), Ref({"s": so}, "s"), I(z3.Int("last_step"), "usize")])
    for pi, p in enumerate(run1(interp, build)):
        tag = f"W4 last step of p1, {n} outputs#p{pi}"
        if p.outcome != "ok" or len(p.info["res"]) != 1:
            V.add(tag, "inconclusive", detail=str(p.value)[:200])
            continue
        ctx = p.ctx
        col, step, val = assertion_table(p.info["res"])[0]
        al = [x.l for x in p.info["al"]]
        m = n - 16
        # statement elements as field values: fresh atoms tied to the integers
        def felt(iv, name):
            a = ctx.var(name)
            ctx.side.append(ctx.atoms[name] == iv.v)
            return a
        st = [felt(x, f"fo{i}") for i, x in enumerate(p.info["stack"])]
        ad = [felt(x, f"fa{j}") for j, x in enumerate(p.info["addrs"])]
        rows = [factor(ctx, al, ad[j + 1], st[n - 1 - j], ad[j]) for j in range(m)]
        r = decide_eq(ctx, p.pc, val.l, product(ctx, rows))
        cov["queries"] += 1
        name = f"{tag}: p1 ends as the product of one factor per overflow output (element, its address, the previous address) - every overflow element and address occurs"
        V.add(name, "discharged" if r == z3.unsat else ("candidate" if r == z3.sat else "inconclusive"))
        if r == z3.sat:
            cov["cands"].append((name, dict(kind="aux_last", outputs=n, value=str(val))))
        V.add(f"{tag}: asserted at the last step", "discharged" if str(step) == "last_step" else "candidate", detail=f"column {col} step {step}")



def check_to_elements(interp, k, n, nk, V, cov):
    """W5: PublicInputs::to_elements lists every element of the statement"""
    fn = fn_of(interp, "::to_elements", "air/src/lib.rs")

    def build(it):
        so, stack, addrs = outputs_struct(it, n)
        ins = [F(it.ctx.var(f"in{i}")) for i in range(k)]
        si = Struct()
        si[0] = ins
        ph = [F(it.ctx.var(f"ph{i}")) for i in range(4)]
        kern = Struct()
        kern[0] = [[F(it.ctx.var(f"kh{j}_{i}")) for i in range(4)] for j in range(nk)]
        order = opsum.struct_fields(os.path.join(REPO, "core/src/program/info.rs"), "ProgramInfo")
        pinfo = Struct()
        for i, nme in enumerate(order):
            pinfo[i] = dict(program_hash=ph, kernel=kern)[nme]
        order = opsum.struct_fields(os.path.join(REPO, "air/src/lib.rs"), "PublicInputs")
        pub = Struct()
        for i, nme in enumerate(order):
            pub[i] = dict(program_info=pinfo, stack_inputs=si, stack_outputs=so)[nme]
        it.info.update(ins=ins, stack=stack, addrs=addrs, ph=ph, kern=kern[0])
        return lambda: it.run_fn(fn, [Ref({"p": pub}, "p")])
    for pi, p in enumerate(run1(interp, build)):
        tag = f"W5 coin seed, {k} inputs / {n} outputs / {nk} kernel procedures#p{pi}"
        if p.outcome != "ok":
            V.add(tag, "inconclusive", detail=str(p.value)[:200])
            continue
        got = [pm.deref(x) for x in p.value]
        ctx = p.ctx
        want = [x.l for x in p.info["ph"]] + [x.l for h in p.info["kern"] for x in h] + [x.l for x in p.info["ins"]]
        wint = [x.v for x in p.info["stack"]] + [x.v for x in p.info["addrs"]]
        if len(got) != len(want) + len(wint):
            V.add(f"{tag}: {len(want) + len(wint)} elements", "candidate", detail=f"{len(got)} elements")
            cov["cands"].append((tag, dict(kind="to_elements", got=len(got), want=len(want) + len(wint))))
            continue
        goals = [ctx.eq(g.l, w) for g, w in zip(got, want)] + [ctx.value(g.l) == w for g, w in zip(got[len(want):], wint)]
        s = z3.Solver()
        s.set("timeout", 60000)
        s.add(ctx.side)
        s.add(p.pc)
        s.add(z3.Not(z3.And(goals)))
        r = s.check()
        cov["queries"] += 1
        name = f"{tag}: program hash, kernel hashes, inputs, outputs and overflow addresses all occur, in this order"
        V.add(name, "discharged" if r == z3.unsat else ("candidate" if r == z3.sat else "inconclusive"))
        if r == z3.sat:
            cov["cands"].append((name, dict(kind="to_elements")))


def confirm(V, cov):
    """candidates are confirmed natively: the real ProcessorAir is built for a statement and for the same
    statement with one element altered; an element whose alteration leaves every boundary assertion
    (main and auxiliary, fixed challenges) unchanged is unbound"""
    if not cov["cands"]:
        return
    jobs = [dict(kind="binding", inputs=list(range(1, k + 1)), outputs=list(range(101, 101 + n)), overflow_addrs=([0] + list(range(7, 7 + n - 16)) if n > 16 else []))
            for k, n in ((3, 16), (17, 16), (19, 18), (0, 19))]
    res = airq.run_jobs(jobs, "c02_bind")
    unbound = sorted({u for r in res for u in r.get("unbound", [])})
    # second oracle: the assertions must also be the ones an honest trace satisfies (otherwise valid proofs
    # of the statement cannot exist): real traces with overflowing inputs / outputs against the real assertions
    import masmsym
    progs = [("begin push.1 push.2 push.3 end", []), ("begin drop drop drop push.5 end", list(range(1, 20))), ("begin push.9 swap drop end", list(range(1, 18)))]
    tr = masmsym.native([{"kind": "trace_check", "source": src, "stack": [str(x) for x in st], "advice": [], "aux": True} for src, st in progs], "c02_tr")
    broken = [f"`{src}` with {len(st)} inputs: {r.get('bad_assertions')} main / {r.get('bad_aux_assertions')} auxiliary assertion(s) fail on the honest trace"
              for (src, st), r in zip(progs, tr) if r.get("status") == "ok" and (r.get("bad_assertions") or r.get("bad_aux_assertions"))]
    for name, info in cov["cands"]:
        path = save_replay(PROP, re.sub(r"[^A-Za-z0-9_]", "_", name)[:70], dict(candidate=info, native_jobs=jobs, native=res, traces=tr))
        if unbound:
            V.violation(name, path, f"{name}; native ProcessorAir: altering {unbound[:4]} leaves every boundary assertion unchanged", key="binding:" + name.split(",")[0])
        elif broken:
            V.violation(name, path, f"{name}; the statement's assertions are not the ones honest traces satisfy: {broken[0]}", key="wiring:" + name.split(",")[0])
        else:
            V.add(name, "inconclusive", detail="solver counterexample; natively every altered element changes some assertion")


def main():
    t0 = time.time()
    V = Verdict(PROP)
    meta = airq.get_meta()
    interp = make_interp()
    cov = dict(queries=0, cands=[], cols=meta.cols, paths=0)
    ks = [0, 1, 15, 16, 17, 19] if tier() == "quick" else list(range(0, 21))  # up to 4 overflow inputs: products of 5+ factors exceed the solver caps
    ns = [16, 17, 19] if tier() == "quick" else list(range(16, 21))
    for k in ks:
        for f in (check_first_step, check_aux_first):
            try:
                f(interp, k, V, cov)
            except Unsupported as e:
                V.add(f"{f.__name__}[{k}]", "inconclusive", detail=str(e)[:300])
    for n in ns:
        for f in (check_last_step, check_aux_last):
            try:
                f(interp, n, V, cov)
            except Unsupported as e:
                V.add(f"{f.__name__}[{n}]", "inconclusive", detail=str(e)[:300])
    for k, n, nk in ([(2, 16, 0), (17, 18, 2)] if tier() == "quick" else [(0, 16, 0), (2, 16, 1), (17, 18, 2), (19, 20, 3)]):
        try:
            check_to_elements(interp, k, n, nk, V, cov)
        except Unsupported as e:
            V.add(f"W5[{k},{n},{nk}]", "inconclusive", detail=str(e)[:300])
    # native cross-check of the unchanged tree (validation of the oracle itself)
    nat = airq.run_jobs([dict(kind="binding", inputs=[1, 2, 3], outputs=list(range(1, 19)), overflow_addrs=[0, 5, 7])], "c02_nat")[0]
    V.add("native ProcessorAir: every element of a sample statement (3 inputs, 18 outputs, 3 overflow addresses) changes some boundary assertion",
          "discharged" if nat.get("status") == "ok" and not nat.get("unbound") else "candidate", detail=str(nat)[:200])
    if nat.get("unbound"):
        cov["cands"].append(("native binding sample", dict(kind="native", result=nat)))
    confirm(V, cov)
    for o in V.obligations:
        if o["status"] == "candidate":
            o["status"] = "replayed"
    c = V.counts()
    coverage = dict(
        states=len(ks) * 2 + len(ns) * 2, transitions=c.get("discharged", 0), traces_validated_against_impl=1,
        samples=V.obligations[:5] + [o for o in V.obligations if o["status"] != "discharged"][:5],
        obligations=len(V.obligations), discharged=c.get("discharged", 0), queries=cov["queries"],
        input_counts=ks, output_counts=ns,
        functions_encoded=["miden-air: stack::{get_assertions_first_step, get_assertions_last_step, get_aux_assertions_first_step, get_aux_assertions_last_step}, "
                           "get_overflow_table_init, get_overflow_table_final, PublicInputs::to_elements (MIR)",
                           "miden-core: StackOutputs::{stack_top, has_overflow, overflow_prev, stack_overflow, to_elements}, StackInputs::to_elements, ProgramInfo::to_elements (MIR)"],
        modelled_natively=["winter-air Assertion::single (recorded), AuxTraceRandElements::get_segment_elements", "iterator adaptors / Vec (lib/rustlib.py), closures interpreted from their MIR"],
        bounds="numbers of inputs / outputs as listed; element values and verifier challenges symbolic",
        not_covered="everything the STARK verifier does with these assertions (FRI, Merkle openings, Fiat-Shamir hashing), proof (de)serialisation, option sets, the hash-function tag; "
                    "that distinct statements give distinct p1 boundary values for random challenges is the Schwartz-Zippel argument, not decided here",
        sources_fingerprint=repo_fingerprint(["air/src/lib.rs", "air/src/constraints/stack/mod.rs", "core/src/stack", "core/src/program/info.rs"]),
        evaluations=len(V.obligations), distinct_nontrivial=c.get("discharged", 0), rule="one obligation per asserted cell / product / element list",
    )
    write_evidence(PROP, "model_checking", coverage, ["field encoding (lib/field.py): products as uninterpreted monomials in normal form", "z3"], time.time() - t0, violations=len(V.violations))
    V.finish()


if __name__ == "__main__":
    main()
