"""C16 (u64 part) — standard-library 64-bit arithmetic is exact.
Engine D: every exported procedure of std::math::u64 is assembled from the current
stdlib/asm/math/u64.masm by the real assembler and executed symbolically (real op bodies, MIR) on
operands given as symbolic 32-bit limbs with 14 further symbolic items beneath; z3 compares every
completed path with the integer function on the 64-bit values and checks that the rest of the stack
is untouched.  Division uses adversarial advice: any completed path must hold the true quotient /
remainder; a zero divisor must not complete.  Shifts and rotations: one obligation per count."""
import os
import random
import re
import sys
import time

import z3

sys.path.insert(0, os.path.dirname(os.path.abspath(__file__)))
import procops  # noqa: E402
from procops import airq, mirsym, opsum, pm  # noqa: E402
import airsolve  # noqa: E402
import masmsym  # noqa: E402
from common import Verdict, log, repo_fingerprint, save_replay, seed, tier, write_evidence  # noqa: E402
from field import AXIOMS, P, Lin  # noqa: E402
from mir_parse import Unsupported  # noqa: E402

PROP = "C16"
TMO = int(os.environ.get("VERIF_C16_TIMEOUT_MS", "60000"))
T32, T64 = 2**32, 2**64
K = 2


# obligations neither back end decides within the budget on the unchanged tree: reported, not claimed
NOT_DECIDED = {
    "u64::wrapping_mul#p0:item 0": "high limb of the wrapping product: z3 (LIA) and the bit-vector back end both time out",
}


def limbs(x):
    return [("int", x / T32), ("int", x % T32)]


def flag(c):
    return ("int", z3.If(c, 1, 0))


def specs():
    """name -> (n_operand_items, fn(ctx, s, v) -> dict(out, fail?, advice?))   stack: [b_hi, b_lo, a_hi, a_lo, ...]"""
    def ab(v):
        return v[2] * T32 + v[3], v[0] * T32 + v[1]

    def prod(c, s):
        # integer a*b through the four limb products (each an exact integer: u32 axiom)
        ll, lh = c.value(c.mul(s[3], s[1])), c.value(c.mul(s[3], s[0]))
        hl, hh = c.value(c.mul(s[2], s[1])), c.value(c.mul(s[2], s[0]))
        return ll + T32 * (lh + hl) + T64 * hh

    S = {}
    S["overflowing_add"] = (4, lambda c, s, v: dict(out=[flag(sum(ab(v)) >= T64)] + limbs(sum(ab(v)) % T64)))
    S["wrapping_add"] = (4, lambda c, s, v: dict(out=limbs(sum(ab(v)) % T64)))
    S["wrapping_sub"] = (4, lambda c, s, v: dict(out=limbs((ab(v)[0] - ab(v)[1]) % T64)))
    S["overflowing_sub"] = (4, lambda c, s, v: dict(out=[flag(ab(v)[0] < ab(v)[1])] + limbs((ab(v)[0] - ab(v)[1]) % T64)))
    S["wrapping_mul"] = (4, lambda c, s, v: dict(out=limbs(prod(c, s) % T64)))
    S["overflowing_mul"] = (4, lambda c, s, v: dict(out=limbs(prod(c, s) / T64) + limbs(prod(c, s) % T64)))
    S["lt"] = (4, lambda c, s, v: dict(out=[flag(ab(v)[0] < ab(v)[1])]))
    S["gt"] = (4, lambda c, s, v: dict(out=[flag(ab(v)[0] > ab(v)[1])]))
    S["lte"] = (4, lambda c, s, v: dict(out=[flag(ab(v)[0] <= ab(v)[1])]))
    S["gte"] = (4, lambda c, s, v: dict(out=[flag(ab(v)[0] >= ab(v)[1])]))
    S["eq"] = (4, lambda c, s, v: dict(out=[flag(ab(v)[0] == ab(v)[1])]))
    S["neq"] = (4, lambda c, s, v: dict(out=[flag(ab(v)[0] != ab(v)[1])]))
    S["eqz"] = (2, lambda c, s, v: dict(out=[flag(z3.And(v[0] == 0, v[1] == 0))]))
    S["min"] = (4, lambda c, s, v: dict(out=limbs(z3.If(ab(v)[0] < ab(v)[1], ab(v)[0], ab(v)[1]))))
    S["max"] = (4, lambda c, s, v: dict(out=limbs(z3.If(ab(v)[0] > ab(v)[1], ab(v)[0], ab(v)[1]))))
    bv = lambda x: z3.Int2BV(x, 32)  # noqa: E731
    ib = z3.BV2Int
    S["and"] = (4, lambda c, s, v: dict(out=[("int", ib(bv(v[2]) & bv(v[0]))), ("int", ib(bv(v[3]) & bv(v[1])))]))
    S["or"] = (4, lambda c, s, v: dict(out=[("int", ib(bv(v[2]) | bv(v[0]))), ("int", ib(bv(v[3]) | bv(v[1])))]))
    S["xor"] = (4, lambda c, s, v: dict(out=[("int", ib(bv(v[2]) ^ bv(v[0]))), ("int", ib(bv(v[3]) ^ bv(v[1])))]))
    # division: results characterised by a = q*b + r, r < b (checked on the completed paths through
    # the quotient / remainder the procedure leaves on the stack)
    S["div"] = (4, lambda c, s, v: dict(out=[("q_hi",), ("q_lo",)], fail=z3.And(v[0] == 0, v[1] == 0), advice=True, div="q"))
    S["mod"] = (4, lambda c, s, v: dict(out=[("r_hi",), ("r_lo",)], fail=z3.And(v[0] == 0, v[1] == 0), advice=True, div="r"))
    S["divmod"] = (4, lambda c, s, v: dict(out=[("r_hi",), ("r_lo",), ("q_hi",), ("q_lo",)], fail=z3.And(v[0] == 0, v[1] == 0), advice=True, div="qr"))
    return S


def specs256():
    """std::math::u256: stack [b7..b0, a7..a0, ...] (most significant limb on top) -> [c7..c0, ...];
    reference = schoolbook limb arithmetic with explicit carries / borrows (linear, no 256-bit terms)"""
    def ab(v):
        return [v[15 - i] for i in range(8)], [v[7 - i] for i in range(8)]  # a_i, b_i with i = 0 least significant

    def add(c, s, v):
        a, b = ab(v)
        out, carry = [], z3.IntVal(0)
        for i in range(8):
            t = a[i] + b[i] + carry
            carry = z3.If(t >= T32, 1, 0)
            out.append(t - carry * T32)
        return dict(out=[("int", x) for x in reversed(out)])

    def sub(c, s, v):
        a, b = ab(v)
        out, borrow = [], z3.IntVal(0)
        for i in range(8):
            t = a[i] - b[i] - borrow
            borrow = z3.If(t < 0, 1, 0)
            out.append(t + borrow * T32)
        return dict(out=[("int", x) for x in reversed(out)])

    bv = lambda x: z3.Int2BV(x, 32)  # noqa: E731
    ib = z3.BV2Int

    def bitwise(f):
        def g(c, s, v):
            a, b = ab(v)
            return dict(out=[("int", ib(f(bv(a[i]), bv(b[i])))) for i in reversed(range(8))])
        return g

    S = {}
    S["add_unsafe"] = (16, add)
    S["sub_unsafe"] = (16, sub)
    S["and"] = (16, bitwise(lambda x, y: x & y))
    S["or"] = (16, bitwise(lambda x, y: x | y))
    S["xor"] = (16, bitwise(lambda x, y: x ^ y))
    S["iszero_unsafe"] = (8, lambda c, s, v: dict(out=[flag(z3.And([v[i] == 0 for i in range(8)]))]))
    S["eq_unsafe"] = (16, lambda c, s, v: dict(out=[flag(z3.And([v[i] == v[8 + i] for i in range(8)]))]))
    return S


def shift_spec(kind, n):
    def f(c, s, v):
        a = v[0] * T32 + v[1]  # [a_hi, a_lo] after the pushed count was consumed: stack is [n, a_hi, a_lo]
        if kind == "shl":
            r = (a * 2**n) % T64
        elif kind == "shr":
            r = a / 2**n
        elif kind == "rotl":
            r = ((a * 2**n) % T64 + a / 2 ** (64 - n)) if n else a
        else:
            r = ((a * 2 ** (64 - n)) % T64 + a / 2**n) if n else a
        return dict(out=limbs(r))
    return f


def qual(name):
    return name if "::" in name else f"u64::{name}"


def lval(ctx, l):
    return z3.IntVal(l.const) if l.is_const() else ctx.value(l)


def check_proc(meta, interp, name, src, nops, fn, V, cov, stdlib=True, concrete=None):
    """concrete: operand items (top first) fixed to the given integers - used for the division procedures
    in the quick tier: operands concrete, the advice (quotient / remainder hint) fully symbolic"""
    a = masmsym.assemble([src], stdlib=stdlib)[0]
    if a["status"] != "ok":
        V.add(qual(name), "inconclusive", detail=f"assembler: {str(a)[:200]}")
        return

    def pre(it, init):
        if concrete is not None:
            proc = it.models
            for i, cval in enumerate(concrete):
                init[i] = mirsym.F(Lin({}, cval))
                proc.stack.top[i] = init[i]
            return
        for i in range(nops):
            it.assume(it.ctx.value(init[i].l) < T32)

    try:
        paths = masmsym.run_mast(interp, meta, a["root"], overflow_items=K, pre=pre)
    except Unsupported as e:
        V.add(qual(name), "not-covered", detail=f"outside the interpreter's subset: {e}")
        return
    cov["paths"] += len(paths)
    n_ok = 0
    for pi, res in enumerate(paths):
        tag = f"{qual(name)}#p{pi}"
        if res.outcome != "ok":
            V.add(tag, "inconclusive", detail=str(res.value)[:200])
            continue
        ctx = res.ctx
        init = res.info["init"]
        s = [x.l for x in init]
        v = [lval(ctx, l) for l in s]
        sp = fn(ctx, s, v)
        fail = sp.get("fail", z3.BoolVal(False))
        solver = z3.Solver()
        solver.set("timeout", TMO)
        solver.add(ctx.side)
        solver.add(res.pc)
        cov["queries"] += 1
        if solver.check() == z3.unsat:
            continue  # excluded by the documented precondition (an `unknown` proceeds: every obligation is decided separately)
        assume = list(res.pc)
        posts = []
        if res.value[0] == "ok":
            n_ok += 1
            final = res.value[1] + res.value[2]
            want = list(sp["out"]) + s[nops:]
            while len(want) < 16:
                want.append(("int", z3.IntVal(0)))
            if len(final) != len(want):
                posts.append((f"final depth {len(want)}", z3.BoolVal(False)))
            else:
                fv = [lval(ctx, x.l) for x in final]
                a64, b64 = (v[2] * T32 + v[3], v[0] * T32 + v[1]) if sp.get("div") else (None, None)
                if sp.get("div"):
                    # positions of q / r limbs on the final stack
                    pos = {w[0]: i for i, w in enumerate(sp["out"])}
                    for i, w in enumerate(want):
                        if isinstance(w, tuple) and w[0] in ("q_hi", "q_lo", "r_hi", "r_lo"):
                            posts.append((f"item {i} is a 32-bit limb", fv[i] < T32))
                        else:
                            posts.append((f"item {i} (rest of the stack)", item(ctx, final[i], w)))
                    if "q_hi" in pos:
                        q = fv[pos["q_hi"]] * T32 + fv[pos["q_lo"]]
                        # q*b through limb products of the final q limbs and the divisor limbs
                        qh, ql = final[pos["q_hi"]].l, final[pos["q_lo"]].l
                        pll, plh = ctx.value(ctx.mul(ql, s[1])), ctx.value(ctx.mul(ql, s[0]))
                        phl, phh = ctx.value(ctx.mul(qh, s[1])), ctx.value(ctx.mul(qh, s[0]))
                        qb = pll + T32 * (plh + phl) + T64 * phh
                        posts.append(("q*b <= a < q*b + b (q is the true quotient)", z3.And(qb <= a64, a64 - qb < b64)))
                        if "r_hi" in pos:
                            r = fv[pos["r_hi"]] * T32 + fv[pos["r_lo"]]
                            posts.append(("a = q*b + r and r < b", z3.And(a64 == qb + r, r < b64)))
                    elif "r_hi" in pos:
                        r = fv[pos["r_hi"]] * T32 + fv[pos["r_lo"]]
                        posts.append(("r < b and r <= a", z3.And(r < b64, r <= a64)))
                else:
                    for i, w in enumerate(want):
                        posts.append((f"item {i}", item(ctx, final[i], w)))
            posts.append(("completes only outside the documented failing case", z3.Not(fail)))
        else:
            err = res.value[1]
            variant = getattr(err, "variant", str(err))
            if variant == "CycleLimitExceeded":
                continue
            if sp.get("advice"):
                V.add(f"{tag}: error {variant} (dishonest hint or zero divisor: does not complete)", "discharged")
                continue
            posts.append((f"error {variant} only in the documented failing case", fail))
        for label, b in posts:
            t1 = time.time()
            st, info = airsolve.decide(ctx, solver, assume, b)
            cov["queries"] += 1
            cov["solver_time_s"] += time.time() - t1
            oname = f"{tag}:{label}"
            if st == "unsat":
                V.add(oname, "discharged", time.time() - t1)
            elif st == "sat":
                confirm(meta, name, src, nops, res, info, oname, V, cov, stdlib)
            elif oname in NOT_DECIDED:
                V.add(oname, "not-decided", detail=NOT_DECIDED[oname] + " | " + str(info)[:120])
            else:
                V.add(oname, "inconclusive", detail=str(info)[:200])
    if n_ok == 0 and not (concrete is not None and concrete[0] == 0 and concrete[1] == 0):  # a zero divisor must not complete
        V.add(f"{qual(name)}:some-ok-path", "inconclusive", detail="no completed path")


def item(ctx, got, want):
    if isinstance(want, Lin):
        return ctx.eq(got.l, want)
    if want[0] == "int":
        return ctx.value(got.l) == want[1]
    raise ValueError(want)


def ref_concrete(name, st):
    name = name.split("@")[0]
    if name.startswith("u256::"):
        n = name.split("::")[1]
        val = lambda ls: sum(x << (32 * i) for i, x in enumerate(reversed(ls)))  # noqa: E731
        lim8 = lambda x: [(x >> (32 * i)) % T32 for i in reversed(range(8))]  # noqa: E731
        if n == "iszero_unsafe":
            return [int(all(x == 0 for x in st[:8]))] + st[8:]
        b, a = val(st[:8]), val(st[8:16])
        M = 2**256
        r = {"add_unsafe": lambda: lim8((a + b) % M), "sub_unsafe": lambda: lim8((a - b) % M), "and": lambda: lim8(a & b),
             "or": lambda: lim8(a | b), "xor": lambda: lim8(a ^ b), "eq_unsafe": lambda: [int(a == b)]}[n]()
        return r + st[16:]
    b, a = st[0] * T32 + st[1], st[2] * T32 + st[3]
    lim = lambda x: [x // T32, x % T32]  # noqa: E731
    m = re.fullmatch(r"(shl|shr|rotl|rotr)\.(\d+)", name)
    if m:
        n = int(m.group(2))
        a = st[0] * T32 + st[1]
        r = {"shl": (a << n) % T64, "shr": a >> n, "rotl": ((a << n) | (a >> (64 - n))) % T64 if n else a,
             "rotr": ((a >> n) | (a << (64 - n))) % T64 if n else a}[m.group(1)]
        return lim(r) + st[2:]
    table = {
        "overflowing_add": lambda: [int(a + b >= T64)] + lim((a + b) % T64), "wrapping_add": lambda: lim((a + b) % T64),
        "wrapping_sub": lambda: lim((a - b) % T64), "overflowing_sub": lambda: [int(a < b)] + lim((a - b) % T64),
        "wrapping_mul": lambda: lim((a * b) % T64), "overflowing_mul": lambda: lim((a * b) // T64) + lim((a * b) % T64),
        "lt": lambda: [int(a < b)], "gt": lambda: [int(a > b)], "lte": lambda: [int(a <= b)], "gte": lambda: [int(a >= b)],
        "eq": lambda: [int(a == b)], "neq": lambda: [int(a != b)], "min": lambda: lim(min(a, b)), "max": lambda: lim(max(a, b)),
        "and": lambda: lim(a & b), "or": lambda: lim(a | b), "xor": lambda: lim(a ^ b),
        "div": lambda: lim(a // b), "mod": lambda: lim(a % b), "divmod": lambda: lim(a % b) + lim(a // b),
    }
    if name == "eqz":
        return [int(st[0] == 0 and st[1] == 0)] + st[2:]
    if name in ("div", "mod", "divmod") and b == 0:
        return None
    return table[name]() + st[4:]


def confirm(meta, name, src, nops, res, env, oname, V, cov, stdlib):
    c = meta.cols
    stack = [env.get(f"c{c['STACK']+i}", 0) for i in range(16)] + [env.get(f"ov{K-1-j}", 0) for j in range(K)]
    nat = masmsym.native([{"kind": "exec_masm", "source": src, "stack": [str(x) for x in stack], "stdlib": stdlib, "max_cycles": 100000}], "c16")[0]
    ref = ref_concrete(name, stack)
    if ref is not None:
        while len(ref) < 16:
            ref.append(0)
    rep = dict(kind="exec_masm", property=PROP, source=src, stack=[str(x) for x in stack], native=nat, reference=None if ref is None else [str(x) for x in ref])
    path = save_replay(PROP, re.sub(r"[^A-Za-z0-9_]", "_", name), rep)
    cov["native_validated"] += 1
    if ref is None:
        bad = nat["status"] == "ok"
    else:
        bad = nat["status"] != "ok" or [int(x) for x in nat["stack"]] != ref
    if bad:
        V.violation(oname, path, f"{qual(name)} on {stack[:4] if '::' not in name else stack[:16]}: native {nat.get('stack', nat.get('error'))!s:.100}, reference {ref!s:.100}", key=qual(name))
    else:
        V.add(oname, "inconclusive", detail=f"solver counterexample did not reproduce natively (operands {stack[:4]})")


_W = {}


def _worker(job):
    name, src, nops, key = job
    V = Verdict(PROP)
    cov = dict(paths=0, queries=0, solver_time_s=0.0, native_validated=0)
    t0 = time.time()
    concrete = None
    if isinstance(key, tuple) and key[0] == "divc":
        fn = specs()[key[1]][1]
        av, bv_ = key[2]
        concrete = [bv_ // T32, bv_ % T32, av // T32, av % T32]
    elif isinstance(key, tuple) and key[0] == "u256":
        fn = specs256()[key[1]][1]
    else:
        fn = specs()[key][1] if key in specs() else shift_spec(*key)
    try:
        check_proc(_W["meta"], _W["interp"], name, src, nops, fn, V, cov, concrete=concrete)
    except Exception as e:
        V.add(qual(name), "inconclusive", detail=f"{type(e).__name__}: {e}")
    for o in V.obligations:
        o["detail"] = None if o["detail"] is None else str(o["detail"])[:300]
    cov["slow"] = [(name, round(time.time() - t0, 1))] if time.time() - t0 > 60 else []
    return V.obligations, V.violations, V.known_hit, cov


def main():
    t0 = time.time()
    V = Verdict(PROP)
    meta = airq.get_meta()
    opsum.load_fns()
    rng = random.Random(seed())
    jobs = []
    only = [a for a in sys.argv[1:] if not a.startswith("-")]
    heavy = {"div", "mod", "divmod", "overflowing_mul", "wrapping_mul"}  # minutes of solver time each: thorough tier only
    for name, (nops, fn) in specs().items():
        if tier() != "thorough" and name in heavy and name not in only:
            continue
        jobs.append((name, f"use.std::math::u64 begin exec.u64::{name} end", nops, name))
    counts = list(range(64)) if tier() == "thorough" else sorted({0, 1, 31, 32, 33, 63} | set(rng.sample(range(64), 2)))
    for kind in ("shl", "shr", "rotl", "rotr"):
        quick_counts = {"shl": [0, 33], "shr": counts, "rotl": [1, 32, rng.randrange(2, 31)], "rotr": [0, 32, rng.randrange(33, 63)]}[kind]
        for n in (counts if tier() == "thorough" else quick_counts):  # rotations / shl multiply by 2^n: heavy
            jobs.append((f"{kind}.{n}", f"use.std::math::u64 begin push.{n} exec.u64::{kind} end", 2, (kind, n)))
    # division with CONCRETE operands and a fully symbolic (adversarial) hint (thorough tier): the solver decides over
    # all 2^128 hints per operand pair; a counterexample needs a dishonest U64Div hint, which the scripted host of the
    # replay binary does not serve yet - such a counterexample ends as exit 2 (inconclusive), not as a VIOLATION
    DIV_OPERANDS = [(10, 5), (0, 0), (5, 0), (T64 - T32, T32), (T64 - 1, 1), (7, T32 + 1), (T64 - 1, T64 - 1), (T64 - 1, T32 - 1), (6 * T32, 3)]
    for pname in ("div", "mod", "divmod"):
        for av, bv_ in (DIV_OPERANDS if tier() == "thorough" or only else []):  # minutes per pair (measured 70-840 s): thorough tier only
            jobs.append((f"{pname}@a={av},b={bv_}", f"use.std::math::u64 begin exec.u64::{pname} end", 4, ("divc", pname, (av, bv_))))
    quick256 = {"add_unsafe", "sub_unsafe", "and"}  # or / xor expand to a + b - and / a + b - 2 and per limb: minutes; iszero / eq fork per limb
    for name, (nops, fn) in specs256().items():
        if tier() != "thorough" and name not in quick256 and f"u256::{name}" not in only and "u256" not in only:
            continue
        jobs.append((f"u256::{name}", f"use.std::math::u256 begin exec.u256::{name} end", nops, ("u256", name)))
    if only:
        jobs = [j for j in jobs if j[0] in only or j[0].split(".")[0] in only or ("u256" in only and j[0].startswith("u256::")) or ("divc" in only and "@" in j[0])]
    masmsym.replay_bin()
    _W.update(meta=meta, interp=opsum.make_interp(max_paths=4000))
    import multiprocessing as mp_
    n = int(os.environ.get("VERIF_JOBS", "0")) or max(1, min(12, (os.cpu_count() or 2) - 2))
    with mp_.get_context("fork").Pool(n) as pool:
        results = pool.map(_worker, jobs, chunksize=1)
    cov = dict(paths=0, queries=0, solver_time_s=0.0, native_validated=0, slow=[])
    for obs, vio, kh, pc in results:
        V.obligations += obs
        V.violations += vio
        V.known_hit += kh
        V.inconclusive += [o["name"] for o in obs if o["status"] == "inconclusive"]
        for k_, v_ in pc.items():
            cov[k_] = cov.get(k_, 0) + v_ if not isinstance(v_, list) else cov.get(k_, []) + v_
    c = V.counts()
    coverage = dict(
        states=cov["paths"], transitions=c.get("discharged", 0), traces_validated_against_impl=cov["native_validated"],
        samples=V.obligations[:4] + [o for o in V.obligations if o["status"] != "discharged"][:6],
        obligations=len(V.obligations), discharged=c.get("discharged", 0), queries=cov["queries"], solver_time_s=round(cov["solver_time_s"], 1),
        procedures=[j[0] for j in jobs], slow=cov["slow"],
        functions_encoded=["stdlib/asm/math/u64.masm (assembled by the real assembler)", "stdlib/asm/math/u256.masm: add_unsafe, sub_unsafe, and, or, xor, iszero_unsafe, eq_unsafe (16 symbolic 32-bit limbs, 2 items beneath)", "Process::execute_op and op bodies (MIR)"],
        bounds="operands: arbitrary 32-bit limbs, 14 arbitrary items beneath; shifts/rotations: one obligation per listed count; adversarial advice for div/mod/divmod (thorough tier: symbolic operands, and the listed concrete operand pairs with a fully symbolic hint)",
        tier_note="quick tier leaves div/mod/divmod/overflowing_mul, most shift counts and u256 or/xor/iszero_unsafe/eq_unsafe to the thorough tier (iszero_unsafe / eq_unsafe: branch feasibility not decided within the caps when last tried: reported not-covered, not claimed)",
        not_covered="u64 clz/ctz/clo/cto (pow2 of a symbolic hint: not decided), u256::mul_unsafe (uses procedure locals: memory contents are not modelled in Engine D)",
        sources_fingerprint=repo_fingerprint(["stdlib/asm/math/u64.masm", "stdlib/asm/math/u256.masm", "processor/src/operations", "assembly/src/assembler/instruction"]),
        evaluations=len(V.obligations), distinct_nontrivial=c.get("discharged", 0), rule="one obligation per (procedure, path, stack item / failure condition)",
    )
    write_evidence(PROP, "model_checking", coverage, ["field axioms: " + "; ".join(AXIOMS), "limbs < 2^32 as documented", "block semantics of C06, abstract stack model (validated natively in C05)"],
                   time.time() - t0, violations=len(V.violations))
    V.finish()


if __name__ == "__main__":
    main()
