"""C05 — operation semantics of the real processor match the reference on every stack state.
Engine C: every path of Process::execute_op (MIR of /repo/processor, dumped on every run) is
compared with the spec table by the solver; Ok paths must produce the documented next stack,
Err paths must coincide with the documented failing cases.  Interpreter and component models are
validated on every run against the natively compiled processor (replay binary)."""
import json
import os
import random
import sys
import time

import z3

sys.path.insert(0, os.path.dirname(os.path.abspath(__file__)))
import procops  # noqa: E402
from procops import CONTROL, airq, classify, mirsym, opsum, pm, run_op, spec_view, specmod  # noqa: E402
import airsolve  # noqa: E402
from common import WORK, Verdict, build_engine, log, repo_fingerprint, run, save_replay, seed, tier, write_evidence  # noqa: E402
from field import AXIOMS, P, Lin  # noqa: E402
from mir_parse import Unsupported  # noqa: E402

PROP = "C05"
TMO = int(os.environ.get("VERIF_SOLVER_TIMEOUT_MS", "30000"))

# documented failure of each operation (docs/src/user_docs/assembly/*.md, design/stack/*.md)
EXPECTED_ERR = {
    "Assert": {"FailedAssertion"}, "Inv": {"DivideByZero"}, "Not": {"NotBinaryValue"}, "And": {"NotBinaryValue"},
    "Or": {"NotBinaryValue"}, "CSwap": {"NotBinaryValue"}, "CSwapW": {"NotBinaryValue"},
    "U32div": {"DivideByZero"}, "U32assert2": {"NotU32Value"}, "U32and": {"NotU32Value"}, "U32xor": {"NotU32Value"},
    "MLoad": {"MemoryAddressOutOfBounds"}, "MLoadW": {"MemoryAddressOutOfBounds"}, "MStore": {"MemoryAddressOutOfBounds"},
    "MStoreW": {"MemoryAddressOutOfBounds"}, "MStream": {"MemoryAddressOutOfBounds"}, "Pipe": {"MemoryAddressOutOfBounds"},
}
# failing cases checked by the bitwise chiplet's processor side (u32and/u32xor fail on non-u32 operands)
EXTRA_IMPLIED = {
    "U32and": lambda S: [("s0 < 2^32", S.lt(S.s[0], 2**32)), ("s1 < 2^32", S.lt(S.s[1], 2**32))],
    "U32xor": lambda S: [("s0 < 2^32", S.lt(S.s[0], 2**32)), ("s1 < 2^32", S.lt(S.s[1], 2**32))],
}
# operations whose error condition is not part of this table (range of the fmp register)
ERR_NOT_CHECKED = {"FmpUpdate": {"InvalidFmpValue"}, "Caller": {"CallerNotInSyscall"}}
BOUNDARY = [0, 1, 2, 2**16, 2**31, 2**32 - 1, 2**32, P - 1]


_REPLAY = []


def native_exec(jobs):
    if not _REPLAY:
        _REPLAY.append(build_engine("replay", release=True))
    binp = _REPLAY[0]
    d = os.path.join(WORK, "replay")
    os.makedirs(d, exist_ok=True)
    if not jobs:
        return []
    jf, of = os.path.join(d, f"c05.{os.getpid()}.in.json"), os.path.join(d, f"c05.{os.getpid()}.out.json")
    json.dump({"jobs": jobs}, open(jf, "w"))
    run([binp, jf, of])
    r = json.load(open(of))["results"]
    os.remove(jf)
    os.remove(of)
    return r


def concrete_inputs(rng, k, n):
    out = []
    for _ in range(n):
        out.append([rng.choice(BOUNDARY) if rng.random() < 0.5 else rng.randrange(P) for _ in range(16 + k)])
    return out


def op_job(op_name, stack, imm=None):
    op = {"name": op_name}
    if imm is not None:
        op["imm"] = str(imm)
    return {"kind": "exec_ops", "ops": [op], "stack": [str(x) for x in stack]}


def base_env_for(res, stack, meta, k, imm=0, clk=1, fmp=2**30):
    """environment of base atoms for a concrete initial state (clk = 1: after the SPAN row)"""
    c = meta.cols
    env = {f"c{c['STACK']+i}": stack[i] for i in range(16)}
    for j in range(k):
        # overflow items: bottom first in our model list; stack[16 + j] is the j-th below the top 16
        env[f"ov{k-1-j}"] = stack[16 + j]
    env[f"c{c['FMP']}"] = fmp
    env["imm"] = imm
    env["err_code_f"] = imm
    return env


def check_op(meta, interp, name, k, V, cov, rng):
    t0 = time.time()
    try:
        paths = run_op(interp, meta, name, k)
    except Unsupported as e:
        V.add(f"{name}[k={k}]", "not-covered", detail=f"MIR construct outside the interpreter's subset: {e}")
        return None
    cov["paths"] += len(paths)
    n_ok = 0
    for pi, res in enumerate(paths):
        kind, detail = classify(res)
        tag = f"{name}[k={k}]#p{pi}"
        if kind == "panic":
            V.add(tag, "inconclusive" if "unreachable" in str(detail) else "panic-path", detail=str(detail))
            cov["panic_paths"].append((tag, str(detail)))
            continue
        S = spec_view(res, meta)
        sp = specmod.SPEC[name](S)
        if name in EXTRA_IMPLIED:
            sp = dict(sp, implied=list(sp.get("implied", [])) + EXTRA_IMPLIED[name](S))
        pre, posts, _ = specmod.posts_from_spec(S, sp)
        ctx = res.ctx
        s = z3.Solver()
        s.set("timeout", TMO)
        s.add(ctx.side)
        s.add(res.pc)
        s.add(pre)
        cov["queries"] += 1
        if s.check() != z3.sat:
            continue  # path excluded by the documented precondition
        assume = list(res.pc) + list(pre)
        if kind == "err":
            variant = detail.variant if hasattr(detail, "variant") else str(detail)
            if variant == "CycleLimitExceeded":
                continue
            if name in ERR_NOT_CHECKED and variant in ERR_NOT_CHECKED[name]:
                V.add(f"{tag}:err {variant}", "discharged", detail="error condition outside the reference table (fmp range)")
                continue
            implied = [b for l, b in sp.get("implied", [])]
            want = EXPECTED_ERR.get(name, set())
            if variant not in want:
                posts_e = [(f"undocumented error {variant}", z3.BoolVal(False))]
            else:
                posts_e = [(f"error {variant} only in the documented failing case", z3.Not(z3.And(implied)) if implied else z3.BoolVal(False))]
            todo = posts_e
        else:
            n_ok += 1
            todo = [(l, b) for l, b in posts if b is not None]
            if k > 0 and len(sp["outputs"]) - sp["consumed"] == -1:
                ovtop = res.info["overflow_before"][-1][0].l
                todo.append(("s15' = item returning from the overflow table (LIFO)", ctx.eq(S.n[15], ovtop)))
        for label, b in todo:
            t1 = time.time()
            st, info = airsolve.decide(ctx, s, assume, b)
            cov["queries"] += 1
            cov["solver_time_s"] += time.time() - t1
            oname = f"{name}[k={k}]#p{pi}:{label}"
            if st == "unsat":
                V.add(oname, "discharged", time.time() - t1)
            elif st == "sat":
                cov["candidates"].append((name, k, pi, label, info, res))
                V.add(oname, "candidate", detail=str({a: v for a, v in info.items() if v})[:300])
            else:
                V.add(oname, "inconclusive", detail=str(info))
    if n_ok == 0 and name not in ():
        V.add(f"{name}[k={k}]:some-ok-path", "inconclusive", detail="no successful path found (vacuous)")
    return paths


def predicted_next(res, env):
    ctx = res.ctx
    e = dict(env)
    out = []
    for x in res.models.stack.next:
        out.append(ctx.eval_lin(x.l, e) if x is not None else None)
    return out


def path_for_env(paths, env):
    for res in paths:
        e = dict(env)
        try:
            if all(res.ctx.holds(c, e) for c in res.pc):
                return res
        except (ValueError, KeyError):
            continue
    return None


def validate_native(meta, name, k, paths, rng, cov, V, n=4):
    """mirsym's prediction for concrete inputs must coincide with the native processor"""
    if paths is None:
        return
    ins = concrete_inputs(rng, k, n)
    imm = rng.choice(BOUNDARY)
    if name in ("Not", "And", "Or", "CSwap", "CSwapW"):
        for st in ins[:3]:
            st[0] = rng.choice([0, 1])
            st[1] = rng.choice([0, 1])
    if name.startswith("U32"):
        for st in ins[:3]:
            for i in range(3):
                st[i] = rng.choice([0, 1, 2**16, 2**31, 2**32 - 1, rng.randrange(2**32)])
    if name == "Assert":
        ins[0][0] = 1
    jobs = [op_job(name, st, imm if name in ("Push", "Assert", "U32assert2") else None) for st in ins]
    # one warm-up Pad/Drop pair keeps clk away from 0 so that shift-right ops are legal; not needed:
    nat = native_exec(jobs)
    for st, r in zip(ins, nat):
        env = base_env_for(None, st, meta, k, imm)
        # unknown free atoms (clk, ctx, ...) : clk = 1 (after SPAN), max_cycles large
        cands = []
        for res in paths:
            kind, detail = classify(res)
            cands.append((res, kind, detail))
        # evaluate path conditions with the concrete environment through the solver (exact)
        match = None
        for res, kind, detail in cands:
            s = z3.Solver()
            s.set("timeout", TMO)
            s.add(res.ctx.side)
            s.add(res.pc)
            for a, v in env.items():
                if a in res.ctx.atoms:
                    s.add(res.ctx.atoms[a] == v)
            s.add(z3.Int("clk") == 1, z3.Int("max_cycles") == 2**32 - 1, z3.Int("err_code") == imm % 2**32)
            # real products for the concrete operands
            s.add(airsolve.real_lemmas(res.ctx, dict(env)))
            s.add(getattr(res.ctx, "exact_int", []))  # exact integer products / quotients (inputs are concrete)
            if s.check() == z3.sat:
                m = s.model()
                match = (res, kind, detail, m)
                break
        cov["native_validated"] += 1
        if match is None:
            V.add(f"{name}[k={k}]:native-validation", "inconclusive", detail=f"no path matches concrete input {st[:4]}")
            continue
        res, kind, detail, m = match
        if r["status"] == "ok":
            if kind != "ok":
                V.add(f"{name}[k={k}]:native-validation", "inconclusive", detail=f"native ok but interpreter path is {kind} for {st[:4]}")
                continue
            e2 = airsolve.base_env(m, res.ctx)
            pred = predicted_next(res, e2)
            got = [int(x) for x in r["stack"]][:16]
            if pred != got:
                V.add(f"{name}[k={k}]:native-validation", "inconclusive",
                      detail=f"interpreter/model mismatch on {st[:4]}: predicted {pred[:4]} native {got[:4]}")
        elif r["status"] == "error":
            if kind != "err":
                V.add(f"{name}[k={k}]:native-validation", "inconclusive", detail=f"native error {r['error'][:60]} but interpreter path is {kind}")
        else:
            V.add(f"{name}[k={k}]:native-validation", "inconclusive", detail=f"native status {r['status']}")


def confirm_candidates(meta, cov, V):
    """replay solver counterexamples on the native processor before reporting"""
    for name, k, pi, label, env, res in cov["candidates"]:
        c = meta.cols
        stack = [env.get(f"c{c['STACK']+i}", 0) for i in range(16)] + [env.get(f"ov{k-1-j}", 0) for j in range(k)]
        imm = env.get("imm", env.get("err_code_f", 0))
        nat = native_exec([op_job(name, stack, imm)])[0]
        kind, detail = classify(res)
        rep = dict(kind="exec_ops", property=PROP, op=name, overflow_items=k, label=label, stack=[str(x) for x in stack],
                   native=nat, path_kind=kind)
        path = save_replay(PROP, f"{name}_k{k}_p{pi}", rep)
        reproduced = False
        if kind == "ok" and nat["status"] == "ok":
            pred = predicted_next(res, dict(env))
            got = [int(x) for x in nat["stack"]][:16]
            reproduced = pred == got
        elif kind == "err" and nat["status"] == "error":
            reproduced = True
        if reproduced:
            V.violation(f"{name}[k={k}]:{label}", path, f"{name}: native result {nat.get('stack', nat.get('error'))} on stack {stack[:4]}.. contradicts the reference ({label})",
                        key=f"{name}:{label.replace(' ', '')}")
        else:
            V.add(f"{name}[k={k}]:{label}", "inconclusive", detail=f"solver model did not reproduce natively: {nat}")


_W = {}


def _worker(args):
    name, regimes, sd, do_native = args
    meta, interp = _W["meta"], _W["interp"]
    rng = random.Random(hash((sd, name)) & 0xffffffff)
    V = Verdict(PROP)
    cov = dict(paths=0, queries=0, solver_time_s=0.0, native_validated=0, candidates=[], panic_paths=[])
    ok_first = False
    try:
        for k in regimes:
            paths = check_op(meta, interp, name, k, V, cov, rng)
            if paths is not None and k == regimes[0]:
                ok_first = True
            if paths is not None and k <= 1 and do_native:
                try:
                    validate_native(meta, name, k, paths, rng, cov, V, n=3 if tier() == "quick" else 8)
                except Exception as e:  # engine trouble is inconclusive, never a verdict on miden-vm
                    V.add(f"{name}[k={k}]:native-validation", "inconclusive", detail=f"{type(e).__name__}: {e}")
        confirm_candidates(meta, cov, V)
    except Exception as e:
        V.add(f"{name}", "inconclusive", detail=f"{type(e).__name__}: {e}")
    for o in V.obligations:
        o["detail"] = None if o["detail"] is None else str(o["detail"])[:300]
        if o["status"] == "candidate":
            o["status"] = "replayed"
    plain = {k: v for k, v in cov.items() if isinstance(v, (int, float))}
    plain["panic_paths"] = [(a, str(b)[:120]) for a, b in cov["panic_paths"]]
    return V.obligations, V.violations, V.known_hit, plain, ok_first


def main():
    t0 = time.time()
    V = Verdict(PROP)
    rng = random.Random(seed())
    meta = airq.get_meta()
    interp = opsum.make_interp()
    cov = dict(paths=0, queries=0, solver_time_s=0.0, native_validated=0, candidates=[], panic_paths=[])
    regimes = [0, 1] if tier() == "quick" else [0, 1, 3]
    names = [n for n in meta.ops if n not in CONTROL]
    only = [a for a in sys.argv[1:] if not a.startswith("-")]
    if only:
        names = [n for n in names if n in only]
    covered = []
    skip_native = ("AdvPop", "AdvPopW", "Clk", "FmpAdd", "FmpUpdate", "Caller", "SDepth", "U32and", "U32xor",
                   "MLoad", "MLoadW", "MStore", "MStoreW", "MStream", "Pipe", "RCombBase")
    _W.update(meta=meta, interp=interp)
    native_exec([])  # build the replay binary once in the parent
    import multiprocessing as mp_
    n = int(os.environ.get("VERIF_JOBS", "0")) or max(1, min(12, (os.cpu_count() or 2) - 2))
    with mp_.get_context("fork").Pool(n) as pool:
        results = pool.map(_worker, [(nm, regimes, seed(), nm not in skip_native) for nm in names], chunksize=1)
    for nm, (obs, vio, known_hit, pc, ok_first) in zip(names, results):
        V.obligations += obs
        V.violations += vio
        V.known_hit += known_hit
        V.inconclusive += [o["name"] for o in obs if o["status"] == "inconclusive"]
        for k_, v_ in pc.items():
            if isinstance(v_, list):
                cov[k_] = cov.get(k_, []) + v_
            else:
                cov[k_] = cov.get(k_, 0) + v_
        if ok_first:
            covered.append(nm)
    cov["candidates"] = []
    # ---- instruction level (Engine D): real assembler expansion + real op bodies vs the reference ----
    cov_i = dict(paths=0, queries=0, solver_time_s=0.0, native_validated=0)
    if not only:
        import c05_instr
        c05_instr.run(meta, V, cov_i)
    c = V.counts()
    not_cov = [o for o in V.obligations if o["status"] == "not-covered"]
    for o in V.obligations:
        if o["status"] in ("candidate",):
            o["status"] = "replayed"
    samples = [o for o in V.obligations if o["status"] not in ("discharged", "replayed")][:8] + V.obligations[:3]
    coverage = dict(
        states=cov["paths"], transitions=c.get("discharged", 0), traces_validated_against_impl=cov["native_validated"],
        samples=samples, obligations=len(V.obligations), discharged=c.get("discharged", 0),
        operations_covered=covered, instructions_checked=cov_i.get("instructions", 0), instruction_paths=cov_i.get("paths", 0),
        instruction_queries=cov_i.get("queries", 0), slow_instructions=cov_i.get("slow", []), operations_not_covered=[(o["name"], o["detail"][:120]) for o in not_cov],
        panic_paths=cov["panic_paths"][:10],
        functions_encoded=["processor::operations::<impl Process<H>>::execute_op and every op_* body, advance_clock, System::advance_clock, assert_binary, split_element, split_u32_into_u16, add_range_checks, get_valid_address (MIR of the current tree)"],
        modelled_natively=["Stack::{get,set,copy_state,shift_left,shift_right} (abstract stack + bookkeeping columns)", "Felt arithmetic (field theory)",
                           "Decoder::set_user_op_helpers / RangeChecker::add_range_checks / Chiplets::* / Host::* as event logs with unconstrained results",
                           "Range<usize> iteration, Try::branch/from_residual, wrapping/overflowing/checked integer ops"],
        bounds=f"one operation from an arbitrary state; stack depth regimes 16+k for k in {regimes}; arithmetic overflow wraps (release semantics)",
        queries=cov["queries"], solver_time_s=round(cov["solver_time_s"], 2),
        sources_fingerprint=repo_fingerprint(["processor/src/operations", "processor/src/system", "processor/src/stack"]),
        evaluations=len(V.obligations), distinct_nontrivial=c.get("discharged", 0),
        rule="one obligation per (operation, depth regime, path, enforced cell / failure condition)",
    )
    # 'not-covered' and 'panic-path' entries are reported, not failures of the check
    V.inconclusive = [n for n in V.inconclusive]
    write_evidence(PROP, "model_checking", coverage,
                   ["field axioms: " + "; ".join(AXIOMS), "spec table spec/ops.py", "abstract Stack model (cross-checked natively on every run)",
                    "rustc MIR of the pinned nightly agrees with the stable build on the encoded subset (validated natively per run)"],
                   time.time() - t0, violations=len(V.violations))
    V.finish()


if __name__ == "__main__":
    main()
