"""C12 (partial) — per-operation agreement of the chiplets bus: the value a stack operation REQUESTS
and the value the serving chiplet row RESPONDS with are the same polynomial in the verifier's
challenges whenever the chiplet row holds the operation's operands and result.
Engine C on the MIR of the processor's BusColumnBuilder::{get_requests_at, get_responses_at} (with the
miden-air MainTrace accessors): the operation row and the chiplet row are two symbolic row pairs; the
matching relation (which chiplet column carries which operand) is taken from the documentation
(docs/src/design/stack/{u32_ops,io_ops}.md, chiplets/{bitwise,memory}.md):
   U32AND / U32XOR   <-> last row of a bitwise cycle with a = s1, b = s0, z = s0', selector = operation
   MLOADW / MSTOREW  <-> memory row with ctx, addr = s0, clk, word v_i = s'_{3-i}, read / write selector
   MLOAD / MSTORE    <-> memory row with word (s0', h2, h1, h0)
   MSTREAM / PIPE    <-> two memory rows (addr = s12, s12 + 1) with the words left in s4'..s7' and s0'..s3'
   SPAN / JOIN / SPLIT / LOOP / CALL / DYN <-> hasher row starting the block's hash (rate = h0..h7, capacity = (0, opcode | 0, 0, 0))
   END               <-> hasher row returning the block hash (digest = h0..h3)
   HPERM             <-> the hasher row starting the permutation and the row returning the state (state j = stack 11-j)
   RESPAN            <-> hasher row absorbing the next batch (ABP, last row of a hash cycle), addressed by the
                         next batch's hasher address and not by the decoder row
z3 decides  matching  =>  request == response, and that rows which are not the last of a bitwise cycle
respond with 1.  A mismatch of operation labels, operand order or challenge indices makes the bus
unbalanced for every execution that uses the operation.  Everything else of C12 (multiset equality
over whole traces, hasher / kernel-ROM messages, decoder tables, range-checker LogUp) is outside."""
import os
import re
import sys
import time

import z3

sys.path.insert(0, os.path.dirname(os.path.abspath(__file__)))
import c03_aux  # noqa: E402
from c03_aux import airq, mirsym, opsum, pm, Columns  # noqa: E402
from common import REPO, Verdict, repo_fingerprint, save_replay, tier, write_evidence  # noqa: E402
from field import P, Lin  # noqa: E402
from mir_parse import Unsupported  # noqa: E402
from mirsym import En, F, I, Opaque, Ref, Struct, UNIT  # noqa: E402

PROP = "C12"


class Columns2(Columns):
    """symbolic trace with named row pairs: op_row / op_row+1 (operation, cells c/n) and base / base+1 (chiplet,
    cells q/r); any other row a piece of code reaches gets its own cells x<row>_<col>, so a request that reads
    the wrong rows simply fails to match"""

    def __init__(self, it, consts, base, chip_consts, op_row=0, next_consts=None, extra=None):
        super().__init__(it, consts)
        self.base, self.chip_consts, self.op_row, self.next_consts = base, chip_consts, op_row, next_consts or {}
        self.extra = extra or {}  # further named rows: row -> (cell prefix, {col: const})

    def cell(self, col, row):
        if row == self.op_row:
            return super().cell(col, 0)
        if row == self.op_row + 1:
            if col in self.next_consts:
                return F(Lin({}, self.next_consts[col]))
            return super().cell(col, 1)
        if row == self.base and col in self.chip_consts:
            return F(Lin({}, self.chip_consts[col]))
        if row in (self.base, self.base + 1):
            return F(self.it.ctx.var(("q" if row == self.base else "r") + str(col)))
        if row in self.extra:
            pref, cs = self.extra[row]
            return F(Lin({}, cs[col])) if col in cs else F(self.it.ctx.var(pref + str(col)))
        return F(self.it.ctx.var(f"x{row}_{col}"))

    def column(self, col):
        hi = max([self.base, self.op_row] + list(self.extra)) + 6  # a few rows beyond the named ones: code reading too far gets x-cells
        named = {self.op_row, self.op_row + 1, self.base, self.base + 1}
        return _LazyColumn(self, col, hi)


class _LazyColumn(list):
    """column view: cells are created on access (only the rows actually read get variables)"""

    def __init__(self, cm, col, n):
        super().__init__([None] * n)
        self.cm, self.col = cm, col

    def __getitem__(self, i):
        if isinstance(i, int):
            return self.cm.cell(self.col, i)
        return super().__getitem__(i)


def run_pair(interp, op_consts, chip_row, chip_consts, op_row=0, next_consts=None, extra=None, second_row=None, builder="chiplets/aux_trace/mod.rs"):
    def bus_fn(suffix):
        # (in chiplets/aux_trace/mod.rs two AuxColumnBuilder impls live in the file: BusColumnBuilder is the first one)
        c_ = [n for n in interp.fns if n.endswith(suffix) and builder + ":" in n]
        c_.sort(key=lambda n: int(re.search(r"\.rs:(\d+):", n).group(1)))
        want = 2 if builder.endswith("chiplets/aux_trace/mod.rs") else 1
        if len(c_) != want:
            raise Unsupported(f"{suffix} in {builder}: expected {want} impl(s), found {c_}")
        return c_[:1]
    req, rsp = bus_fn("::get_requests_at"), bus_fn("::get_responses_at")

    def make_run(it):
        it.begin_run(None)
        cm = Columns2(it, op_consts, chip_row, chip_consts, op_row, next_consts, extra)
        mt = Struct()
        mt[0] = cm
        alphas = [F(it.ctx.var(f"al{i}")) for i in range(16)]
        it.info["alphas"] = alphas

        def thunk():
            a = it.run_fn(it.fns[req[0]].parsed(), [Opaque("builder"), Ref({"m": mt}, "m"), alphas, I(op_row, "usize")])
            b = it.run_fn(it.fns[rsp[0]].parsed(), [Opaque("builder"), Ref({"m": mt}, "m"), alphas, I(chip_row, "usize")])
            if second_row is not None:
                # operations that send two messages: the request is the product, so is the response side
                b2 = it.run_fn(it.fns[rsp[0]].parsed(), [Opaque("builder"), Ref({"m": mt}, "m"), alphas, I(second_row, "usize")])
                b = F(it.ctx.mul(b.l, b2.l))
            return [a, b]
        return thunk
    return interp.explore(make_run)


def main():
    t0 = time.time()
    V = Verdict(PROP)
    meta = airq.get_meta()
    c = meta.cols
    interp = c03_aux.make_interp()
    interp.max_paths = 256
    ch, ST, CLK = c["CHIPLETS"], c["STACK"], c["CLK"]
    HP = c["USER_OP_HELPERS"]
    CTX = c["CTX"]
    cov = dict(paths=0, queries=0)
    cases = []
    for opname, sel in (("U32and", 0), ("U32xor", 1)):
        cases.append(dict(op=opname, chip_row=7, chip={ch: 1, ch + 1: 0, ch + 2: sel}, what=f"bitwise chiplet, last row of a cycle, selector {sel}",
                          match=lambda cur, nxt, q: [(q(c["BITWISE_A"]), cur(ST + 1)), (q(c["BITWISE_B"]), cur(ST)), (q(c["BITWISE_OUTPUT"]), nxt(ST))]))
        cases.append(dict(op=opname, chip_row=3, chip={ch: 1, ch + 1: 0, ch + 2: sel}, what="bitwise chiplet, row inside a cycle", expect_one=True, match=lambda cur, nxt, q: []))
    MV = c["MEMORY_V"]
    memw = lambda cur, nxt, q: [(q(c["MEMORY_CTX"]), cur(CTX)), (q(c["MEMORY_ADDR"]), cur(ST)), (q(c["MEMORY_CLK"]), cur(CLK))] + [(q(MV + i), nxt(ST + 3 - i)) for i in range(4)]  # noqa: E731
    meme = lambda cur, nxt, q: [(q(c["MEMORY_CTX"]), cur(CTX)), (q(c["MEMORY_ADDR"]), cur(ST)), (q(c["MEMORY_CLK"]), cur(CLK)), (q(MV), nxt(ST)),  # noqa: E731
                                (q(MV + 1), cur(HP + 2)), (q(MV + 2), cur(HP + 1)), (q(MV + 3), cur(HP))]
    for opname, is_read, m in (("MLoadW", 1, memw), ("MStoreW", 0, memw), ("MLoad", 1, meme), ("MStore", 0, meme)):
        cases.append(dict(op=opname, chip_row=5, chip={ch: 1, ch + 1: 1, ch + 2: 0, ch + 3: is_read}, what=f"memory chiplet row, {'read' if is_read else 'write'} selector", match=m))
        cases.append(dict(op=opname, chip_row=5, chip={ch: 1, ch + 1: 1, ch + 2: 0, ch + 3: 1 - is_read}, what="memory chiplet row with the other access kind", expect_diff=True, match=m))
    # RESPAN (decoder row 40) <-> hasher row 15 absorbing the next batch (ABP selectors, last row of a cycle):
    # the next batch lives at hasher address 17 (1-based), i.e. the absorption is between hasher rows 15 and 16
    HS, HST, HIDX = c["HASHER_SELECTORS"], c["HASHER_STATE_COLS"], c["HASHER_NODE_INDEX"]
    DEC = c["DECODER"]
    cases.append(dict(op="Respan", chip_row=15, op_row=40, next_consts={DEC: 17}, chip={ch: 0, HS: 1, HS + 1: 0, HS + 2: 0},
                      what="hasher row absorbing the next operation batch (ABP)", match=lambda cur, nxt, q: [(q(HIDX), Lin({}, 0))]))
    # block starts <-> hasher row that begins the block's hash (BP selectors, first row of a cycle, hasher
    # address 17 = chiplet row 16): rate = the decoder's h0..h7, capacity = (0, opcode, 0, 0) for control
    # blocks and zero for SPAN, node index 0 (docs/src/design/decoder/main.md, chiplets/hasher.md)
    DH = c["HASHER_STATE"]

    def block_match(opcode_in_capacity):
        def mrel(cur, nxt, q):
            return [(q(HST + 4 + i), cur(DH + i)) for i in range(8)]
        return mrel

    def block_chip(opcode_in_capacity):
        # capacity (0, opcode | 0, 0, 0) and node index 0 are concrete cells of the chiplet row
        d = {ch: 0, HS: 1, HS + 1: 0, HS + 2: 0, HIDX: 0}
        d.update({HST + j: (opcode_in_capacity if j == 1 else 0) for j in range(4)})
        return d
    for opname in ("Span", "Join", "Split", "Loop", "Call", "Dyn"):
        if opname not in meta.ops:
            continue
        oc = meta.ops[opname]["opcode"]
        cases.append(dict(op=opname, chip_row=16, op_row=40, next_consts={DEC: 17}, chip=block_chip(0 if opname == "Span" else oc),
                          what="hasher row starting the block's hash (BP)", match=block_match(0 if opname == "Span" else oc)))
    # SYSCALL <-> the hasher row starting the block hash AND the kernel ROM row of the called procedure (selector s4 = 1; the
    # following kernel ROM row belongs to the same procedure, so the procedure-table factor of that row is 1)
    KA, KR = ch + 5, ch + 6
    ksel = {ch: 1, ch + 1: 1, ch + 2: 1, ch + 3: 0, ch + 4: 1}
    cases.append(dict(op="SysCall", chip_row=16, op_row=40, next_consts={DEC: 17}, chip=block_chip(meta.ops["SysCall"]["opcode"]),
                      second_row=30, extra={30: ("u", ksel), 31: ("w", {})}, what="hasher row starting the block hash and the kernel ROM row of the procedure",
                      match=block_match(0), match2=lambda cur, nxt, u: [(u(KR + i), cur(DH + i)) for i in range(4)],
                      match3=lambda ctx: [(ctx.var(f"w{KA}"), ctx.var(f"u{KA}"))]))
    # END <-> hasher row returning the block's hash (HOUT selectors, last row of the cycle that started at address 17)
    cases.append(dict(op="End", chip_row=23, op_row=40, cur_consts={DEC: 17}, chip={ch: 0, HS: 0, HS + 1: 0, HS + 2: 0},
                      what="hasher row returning the block hash (HOUT)",
                      match=lambda cur, nxt, q: [(q(HST + 4 + i), cur(DH + i)) for i in range(4)] + [(q(HIDX), Lin({}, 0))]))
    # MSTREAM / PIPE <-> two memory rows (addr = s12 and s12 + 1; the word at addr ends up in s4'..s7', the word at
    # addr + 1 in s0'..s3', element v_i at position 7 - i resp. 3 - i): read rows for MSTREAM, write rows for PIPE
    def two_words(cur, nxt, q):
        return [(q(c["MEMORY_CTX"]), cur(CTX)), (q(c["MEMORY_ADDR"]), cur(ST + 12)), (q(c["MEMORY_CLK"]), cur(CLK))] + [(q(MV + i), nxt(ST + 7 - i)) for i in range(4)]

    def two_words2(cur, nxt, u):
        return [(u(c["MEMORY_CTX"]), cur(CTX)), (u(c["MEMORY_ADDR"]), cur(ST + 12) + 1), (u(c["MEMORY_CLK"]), cur(CLK))] + [(u(MV + i), nxt(ST + 3 - i)) for i in range(4)]
    for opname, is_read in (("MStream", 1), ("Pipe", 0)):
        sel = {ch: 1, ch + 1: 1, ch + 2: 0, ch + 3: is_read}
        cases.append(dict(op=opname, chip_row=5, chip=sel, second_row=9, extra={9: ("u", sel), 10: ("w", {})},
                          what=f"two memory chiplet rows ({'read' if is_read else 'write'})", match=two_words, match2=two_words2))
    # RCOMBBASE <-> two memory read rows: word (h0..h3) at s13 and word (h4, h5, 0, 0) at s14 (crypto_ops.md: "the
    # remaining elements of the word are expected to be empty")
    selr = {ch: 1, ch + 1: 1, ch + 2: 0, ch + 3: 1}
    cases.append(dict(op="RCombBase", chip_row=5, chip=selr, second_row=9, extra={9: ("u", selr), 10: ("w", {})}, what="two memory chiplet rows (OOD values, randomness)",
                      match=lambda cur, nxt, q: [(q(c["MEMORY_CTX"]), cur(CTX)), (q(c["MEMORY_ADDR"]), cur(ST + 13)), (q(c["MEMORY_CLK"]), cur(CLK))] + [(q(MV + i), cur(HP + i)) for i in range(4)],
                      match2=lambda cur, nxt, u: [(u(c["MEMORY_CTX"]), cur(CTX)), (u(c["MEMORY_ADDR"]), cur(ST + 14)), (u(c["MEMORY_CLK"]), cur(CLK)), (u(MV), cur(HP + 4)), (u(MV + 1), cur(HP + 5)),
                                                  (u(MV + 2), Lin({}, 0)), (u(MV + 3), Lin({}, 0))]))
    # HPERM <-> two hasher rows: the row that starts the permutation (BP, address 17 = chiplet row 16) holding the
    # input state and the row that returns the whole state (SOUT, chiplet row 23); hasher state element j <-> stack item 11 - j
    cases.append(dict(op="HPerm", chip_row=16, op_row=40, cur_consts={HP: 17}, chip={ch: 0, HS: 1, HS + 1: 0, HS + 2: 0, HIDX: 0},
                      second_row=23, extra={23: ("u", {ch: 0, HS: 0, HS + 1: 0, HS + 2: 1, HIDX: 0}), 24: ("w", {})},
                      what="hasher rows starting the permutation (BP) and returning the state (SOUT)",
                      match=lambda cur, nxt, q: [(q(HST + j), cur(ST + 11 - j)) for j in range(12)],
                      match2=lambda cur, nxt, u: [(u(HST + j), nxt(ST + 11 - j)) for j in range(12)]))
    # ---- decoder virtual tables: the row a block start ADDS (response of the start row, here the "chiplet" row
    # pair q/r at trace row 20) is the row the matching RESPAN / END REMOVES (request of the op row c/n at row 40)
    def opbits(name):
        return {int(k): v for k, v in meta.opcode_consts(meta.ops[name]["opcode"]).items()}
    ADDR = DEC
    H = lambda i: DH + i  # noqa: E731
    BST = "decoder/aux_trace/block_stack_table.rs"
    BHT = "decoder/aux_trace/block_hash_table.rs"
    SYS_CTX, SYS_FMP, B0c, B1c, FNH = CTX, c["FMP"], c["B0"], c["B1"], c["FN_HASH"]
    # block stack table p1: SPAN / RESPAN add (a', parent, 0); RESPAN removes (a, h1', 0)
    for starter in ("Span",):
        cases.append(dict(op="Respan", builder=BST, op_row=40, chip_row=20, chip=opbits(starter), what=f"block stack table: row added by {starter.upper()}",
                          match=lambda cur, nxt, q, r=None: []))
    cases[-1]["match"] = None  # filled below (needs the next-row cells of the start row)
    cases.pop()
    cases.append(dict(op="Respan", builder=BST, op_row=40, chip_row=20, chip=opbits("Span"), what="block stack table: the row SPAN added for this batch",
                      rel4=lambda cur, nxt, q, r: [(cur(ADDR), r(ADDR)), (nxt(H(1)), q(ADDR))]))
    # END removes what JOIN / SPLIT / SPAN / LOOP added: (a, a', is_loop)
    for starter in ("Join", "Split", "Span"):
        cases.append(dict(op="End", builder=BST, op_row=40, chip_row=20, chip=opbits(starter), cur_consts={H(6): 0, H(7): 0, H(5): 0},
                          what=f"block stack table: the row {starter.upper()} added", rel4=lambda cur, nxt, q, r: [(cur(ADDR), r(ADDR)), (nxt(ADDR), q(ADDR))]))
    cases.append(dict(op="End", builder=BST, op_row=40, chip_row=20, chip=opbits("Loop"), cur_consts={H(6): 0, H(7): 0},
                      what="block stack table: the row LOOP added (is_loop = the loop condition)",
                      rel4=lambda cur, nxt, q, r: [(cur(ADDR), r(ADDR)), (nxt(ADDR), q(ADDR)), (cur(H(5)), q(ST))]))
    # END of a CALL removes the row CALL added, including the caller's context and the function hash
    cases.append(dict(op="End", builder=BST, op_row=40, chip_row=20, chip=opbits("Call"), cur_consts={H(6): 1, H(7): 0, H(5): 0},
                      what="block stack table: the row CALL added (with the execution context)",
                      rel4=lambda cur, nxt, q, r: [(cur(ADDR), r(ADDR)), (nxt(ADDR), q(ADDR)), (nxt(SYS_CTX), q(SYS_CTX)), (nxt(SYS_FMP), q(SYS_FMP)), (nxt(B0c), q(B0c)), (nxt(B1c), q(B1c))]
                      + [(nxt(FNH + i), q(FNH + i)) for i in range(4)]))
    cases.append(dict(op="End", builder=BST, op_row=40, chip_row=20, chip=opbits("SysCall"), cur_consts={H(6): 0, H(7): 1, H(5): 0},
                      what="block stack table: the row SYSCALL added (with the execution context; the function hash is the caller's)",
                      rel4=lambda cur, nxt, q, r: [(cur(ADDR), r(ADDR)), (nxt(ADDR), q(ADDR)), (nxt(SYS_CTX), q(SYS_CTX)), (nxt(SYS_FMP), q(SYS_FMP)), (nxt(B0c), q(B0c)), (nxt(B1c), q(B1c))]
                      + [(nxt(FNH + i), q(FNH + i)) for i in range(4)]))
    # block hash table p2: the END of a called procedure's body removes the entry CALL added (parent = the call block, hash = h0..h3 of
    # the CALL row, not a loop body, the next operation is the END of the call block)
    cases.append(dict(op="End", builder=BHT, op_row=40, chip_row=20, chip=opbits("Call"), cur_consts={H(4): 0}, next_consts=opbits("End"),
                      what="block hash table: the entry CALL added for the called body",
                      rel4=lambda cur, nxt, q, r: [(nxt(ADDR), r(ADDR))] + [(cur(H(i)), q(H(i))) for i in range(4)]))
    # block hash table p2, single-child entries: the entry a SPLIT / LOOP / REPEAT / DYN adds for the child it is about to
    # execute is the entry the END of that child removes (parent id, child hash, is_loop_body flag; the child's END is
    # followed by the END / REPEAT of the parent, so the is_first_child flag alpha6 is absent on both sides)
    def child(digest_of_start_row, loop_body):
        def rel(cur, nxt, q, r):
            return [(nxt(ADDR), r(ADDR))] + [(cur(H(i)), digest_of_start_row(q, i)) for i in range(4)]
        return dict(cur_consts={H(4): 1 if loop_body else 0}, rel4=rel)
    d = child(lambda q, i: q(H(i)), False)
    cases.append(dict(op="End", builder=BHT, op_row=40, chip_row=20, chip={**opbits("Split"), ST: 1}, next_consts=opbits("End"),
                      what="block hash table: the entry SPLIT added for the true branch", **d))
    d = child(lambda q, i: q(H(4 + i)), False)
    cases.append(dict(op="End", builder=BHT, op_row=40, chip_row=20, chip={**opbits("Split"), ST: 0}, next_consts=opbits("End"),
                      what="block hash table: the entry SPLIT added for the false branch", **d))
    d = child(lambda q, i: q(H(i)), True)
    cases.append(dict(op="End", builder=BHT, op_row=40, chip_row=20, chip={**opbits("Loop"), ST: 1}, next_consts=opbits("Repeat"),
                      what="block hash table: the entry LOOP added for the loop body", **d))
    d = child(lambda q, i: q(H(i)), True)
    cases.append(dict(op="End", builder=BHT, op_row=40, chip_row=20, chip=opbits("Repeat"), next_consts=opbits("End"),
                      what="block hash table: the entry REPEAT added for the next iteration of the body", **d))
    d = child(lambda q, i: q(ST + 3 - i), False)
    cases.append(dict(op="End", builder=BHT, op_row=40, chip_row=20, chip=opbits("Dyn"), next_consts=opbits("End"),
                      what="block hash table: the entry DYN added for the callee taken from the stack", **d))
    # op group table p3 (batches with two groups: one entry): SPAN / RESPAN add (a', group_count - 1, h1); the entry is removed
    # on the row where the group counter drops inside the span - by the immediate value of a PUSH (value = s0') or by the
    # start of the next group (value = h0' * 2^7 + opcode of the next operation)
    OGT = "decoder/aux_trace/op_group_table.rs"
    IN_SPAN, GC, BF = DEC + 16, DEC + 17, DEC + 19
    two_groups = {BF: 0, BF + 1: 0, BF + 2: 1}
    mul_code = meta.ops["Mul"]["opcode"]
    for starter in ("Span", "Respan"):
        cases.append(dict(op="Push", builder=OGT, op_row=40, chip_row=20, chip={**opbits(starter), **two_groups}, cur_consts={IN_SPAN: 1},
                          what=f"op group table: the entry {starter.upper()} added, removed as the immediate of a PUSH",
                          rel4=lambda cur, nxt, q, r: [(cur(ADDR), r(ADDR)), (cur(GC), q(GC) - 1), (nxt(GC), cur(GC) - 1), (q(H(1)), nxt(ST))]))
        cases.append(dict(op="Add", builder=OGT, op_row=40, chip_row=20, chip={**opbits(starter), **two_groups}, cur_consts={IN_SPAN: 1}, next_consts=opbits("Mul"),
                          what=f"op group table: the entry {starter.upper()} added, removed when the next group starts",
                          rel4=lambda cur, nxt, q, r: [(cur(ADDR), r(ADDR)), (cur(GC), q(GC) - 1), (nxt(GC), cur(GC) - 1), (q(H(1)), nxt(H(0)).scale(128) + mul_code)]))
    for case in cases:
        opcode = meta.ops[case["op"]]["opcode"]
        op_consts = {int(k): v for k, v in meta.opcode_consts(opcode).items()}
        op_consts.update(case.get("cur_consts", {}))
        tag = f"bus:{case['op']} <-> {case['what']}"
        try:
            paths = run_pair(interp, op_consts, case["chip_row"], case["chip"], case.get("op_row", 0), case.get("next_consts"), case.get("extra"), case.get("second_row"),
                             case.get("builder", "chiplets/aux_trace/mod.rs"))
        except Unsupported as e:
            V.add(tag, "inconclusive", detail=str(e)[:300])
            continue
        cov["paths"] += len(paths)
        live = 0
        for pi, res in enumerate(paths):
            if res.outcome != "ok":
                V.add(f"{tag}#p{pi}", "inconclusive", detail=str(res.value)[:200])
                continue
            ctx = res.ctx
            req, rsp = res.value[0].l, res.value[1].l
            cur = lambda col: ctx.var(f"c{col}")  # noqa: E731
            nxt = lambda col: ctx.var(f"n{col}")  # noqa: E731
            q = lambda col: ctx.var(f"q{col}")  # noqa: E731
            if "rel4" in case:
                rr = lambda col: ctx.var(f"r{col}")  # noqa: E731
                rel = [ctx.eq(a, b) for a, b in case["rel4"](cur, nxt, q, rr)]
            else:
                rel = [ctx.eq(a, b) for a, b in case["match"](cur, nxt, q)]
            if "match2" in case:
                u = lambda col: ctx.var(f"u{col}")  # noqa: E731
                rel += [ctx.eq(a, b) for a, b in case["match2"](cur, nxt, u)]
            if "match3" in case:
                rel += [ctx.eq(a, b) for a, b in case["match3"](ctx)]
            if case.get("expect_one"):
                goal, label = ctx.eq(rsp, Lin({}, 1)), "a row inside a bitwise cycle responds with 1"
            elif case.get("expect_diff"):
                # with generic challenges a read request never equals a write response: the labels differ
                goal, label = z3.Not(z3.And(ctx.eq(req, rsp), ctx.value(ctx.var("al1")) != 0)), "read and write messages carry different labels (request != response for alpha1 != 0)"
            else:
                goal, label = ctx.eq(req, rsp), "request == response when the chiplet row holds the operation's operands and result"
            s = z3.Solver()
            s.set("timeout", 60000)
            s.add(ctx.side)
            s.add(res.pc)
            s.add(rel)
            cov["queries"] += 1
            sv = z3.Solver()
            sv.set("timeout", 60000)
            sv.add(s.assertions())
            if sv.check() == z3.unsat:
                continue  # this path is excluded by the matching relation (e.g. the branch in which nothing is removed)
            live += 1
            s.add(z3.Not(goal))
            r = s.check()
            cov["queries"] += 1
            name = f"{tag}#p{pi}: {label}"
            if r == z3.unsat:
                V.add(name, "discharged")
            elif r == z3.sat:
                path = save_replay(PROP, re.sub(r"[^A-Za-z0-9_]", "_", name)[:70], dict(op=case["op"], request=str(req), response=str(rsp)))
                confirm(V, name, path, case["op"])
            else:
                V.add(name, "inconclusive", detail="solver unknown")
        if not live:
            V.add(f"{tag}: some path is compatible with the matching relation (vacuity guard)", "inconclusive", detail="every path contradicts the relation")
    c_ = V.counts()
    coverage = dict(
        states=max(1, cov["paths"]), transitions=c_.get("discharged", 0), traces_validated_against_impl=cov.get("native", 0),
        samples=V.obligations[:8], obligations=len(V.obligations), discharged=c_.get("discharged", 0), queries=cov["queries"],
        functions_encoded=["processor chiplets::aux_trace::BusColumnBuilder::{get_requests_at, get_responses_at}, build_bitwise_request, build_mem_request_word, build_mem_request_element, "
                           "compute_memory_request, build_bitwise_chiplet_responses, build_memory_chiplet_responses, get_op_label (MIR)", "miden-air MainTrace accessors (MIR)"],
        bounds="one operation row and one chiplet row, all cells and challenges symbolic; operations U32AND, U32XOR, MLOADW, MSTOREW, MLOAD, MSTORE, MSTREAM, PIPE, RCOMBBASE (two messages); SPAN, JOIN, SPLIT, LOOP, CALL, DYN, RESPAN, END and HPERM (two messages) against the hasher (concrete hasher address 17, decoder row 40)",
        not_covered="multiset equality over whole traces; MPVERIFY / MRUPDATE, SYSCALL (kernel ROM) messages; decoder virtual tables; range-checker LogUp; the request side of the range checker (seed c03a)",
        sources_fingerprint=repo_fingerprint(["processor/src/chiplets/aux_trace", "air/src/trace/main_trace.rs"]),
        evaluations=len(V.obligations), distinct_nontrivial=c_.get("discharged", 0), rule="one obligation per (operation, chiplet row kind, path)",
    )
    write_evidence(PROP, "model_checking", coverage, ["matching relation between operation and chiplet columns taken from the design documentation", "field encoding of lib/field.py", "z3"], time.time() - t0, violations=len(V.violations))
    V.finish()


BUS_PROGRAMS = {
    "U32and": "begin push.5 push.3 u32and drop end", "U32xor": "begin push.5 push.3 u32xor drop end",
    "MLoadW": "begin push.1.2.3.4 mem_storew.7 dropw padw mem_loadw.7 dropw end", "MStoreW": "begin push.1.2.3.4 mem_storew.7 dropw end",
    "MLoad": "begin push.1.2.3.4 mem_storew.3 dropw mem_load.3 drop end", "MStore": "begin push.1.2.3.4 mem_storew.3 dropw push.9 mem_store.3 end",
    "Respan": "begin repeat.80 push.1 drop end end",
    "Span": "begin push.1 drop end", "End": "begin push.1 if.true push.2 drop else push.3 drop end end",
    "Join": "begin push.1 if.true push.2 drop else push.3 drop end push.4 drop end", "Split": "begin push.1 if.true push.2 drop else push.3 drop end end",
    "HPerm": "begin push.1.2.3.4 hperm dropw dropw dropw end",
    "RCombBase": "begin push.5.6.7.8 mem_storew.10 dropw push.4.3.0.0 mem_storew.20 dropw push.0.20.10.0 padw padw padw rcomb_base dropw dropw dropw dropw end",
    "MStream": "begin push.1.2.3.4 mem_storew.0 dropw padw padw padw mem_stream dropw dropw dropw end",
    "Pipe": ("begin padw padw padw adv_pipe dropw dropw dropw end", [1, 2, 3, 4, 5, 6, 7, 8]),
    "SysCall": "begin push.1 drop end",
    "Loop": "begin push.1 while.true push.0 end end", "Call": "proc.f push.1 drop end begin call.f end", "Dyn": "begin push.1 drop end",
}
# further programs per operation: reads of addresses never written before (first access), several batches
BUS_PROGRAMS_MORE = {
    "MLoad": ["begin mem_load.5 drop end"], "MLoadW": ["begin padw mem_loadw.1 dropw end"],
    "Respan": ["begin push.1.2.3.4 dropw push.1.2.3.4 dropw push.1.2.3.4 dropw push.5.6.7.8 dropw end"],
}


def confirm(V, name, path, op):
    """native: a program using the operation; the chiplets bus column must return to 1 at the end of the real trace"""
    import masmsym
    if op in ("End", "Respan", "Push", "Add"):
        return confirm_tables(V, name, path)
    progs = [BUS_PROGRAMS[op]] + BUS_PROGRAMS_MORE.get(op, [])
    progs = [(p_, []) if isinstance(p_, str) else p_ for p_ in progs]
    nats = masmsym.native([{"kind": "trace_check", "source": src, "stack": [], "advice": [str(x) for x in adv], "aux": True} for src, adv in progs], "c12")
    progs = [src for src, _ in progs]
    for src, nat in zip(progs, nats):
        if nat.get("status") == "ok" and nat.get("bus_final") not in (None, "1"):
            V.violation(name, path, f"{name}; native trace of `{src}`: the chiplets bus column ends at {nat.get('bus_final')} instead of 1", key=f"bus:{op}")
            return
    V.add(name, "inconclusive", detail=f"solver counterexample; native bus column back at 1 for {progs}")


TABLE_KERNEL = "export.foo push.1 drop end export.bar push.2 drop end"
TABLE_PROGRAMS = ["begin repeat.80 push.1 drop end end", "begin repeat.18 padw end drop end", "proc.f push.1 drop end begin call.f end",
                  "begin push.1 if.true push.2 drop else push.3 drop end push.1 while.true push.0 end end",
                  "proc.f push.1 drop end proc.g call.f push.2 drop end begin call.g call.f end",
                  # calls made while the caller's stack is deeper than 16 (non-zero overflow address saved and restored)
                  "proc.f push.1 drop end begin push.7 push.8 push.9 call.f drop drop drop end",
                  "proc.f push.1 drop end proc.g push.4 call.f drop end begin push.7 push.8 call.g drop drop end"]


def confirm_tables(V, name, path):
    """native: every virtual-table column of real traces (decoder p1..p3, chiplets table and bus) must end at 1"""
    import masmsym
    progs = [(src, None) for src in TABLE_PROGRAMS] + [("begin syscall.foo syscall.bar end", TABLE_KERNEL), ("proc.f syscall.foo end begin call.f syscall.bar end", TABLE_KERNEL),
                                                           ("begin push.7 push.8 push.9 syscall.foo drop drop drop end", TABLE_KERNEL)]
    nats = masmsym.native([dict(kind="trace_check", source=src, stack=[], advice=[], aux=True, **({"kernel": k} if k else {})) for src, k in progs], "c12t")
    for (src, k), nat in zip(progs, nats):
        fin = nat.get("aux_final") or []
        # decoder p1, p2, p3; chiplets table; chiplets bus (with a kernel the bus ends at the kernel procedure table's value)
        bad = [i for i in ((0, 1, 2, 5) if k else (0, 1, 2, 5, 6)) if i < len(fin) and fin[i] != "1"]
        if nat.get("status") == "ok" and bad:
            V.violation(name, path, f"{name}; native trace of `{src}`: auxiliary column(s) {bad} end at {[fin[i] for i in bad]} instead of 1", key="tables:" + name.split(":")[1][:12])
            return
    V.add(name, "inconclusive", detail="solver counterexample; native virtual-table columns all end at 1")


if __name__ == "__main__":
    main()
