"""Shared by C03 / C05 / C14 / C15: per-operation path summaries of the real Process::execute_op
(Engine C) turned into (a) a spec view and (b) an AIR row pair."""
import os
import sys
import time

import z3

sys.path.insert(0, os.path.join(os.path.dirname(os.path.abspath(__file__)), "..", "lib"))
sys.path.insert(0, os.path.join(os.path.dirname(os.path.abspath(__file__)), "..", "spec"))
import airq  # noqa: E402
import mirsym  # noqa: E402
import ops as specmod  # noqa: E402
import opsum  # noqa: E402
import procmodel as pm  # noqa: E402
from common import WORK, log, run  # noqa: E402
from field import P, Lin  # noqa: E402
from mirsym import En, F, I  # noqa: E402

CONTROL = {"Join", "Split", "Loop", "Call", "Dyn", "SysCall", "Span", "End", "Repeat", "Respan", "Halt"}


def classify(res):
    """PathResult -> ('ok'|'err'|'panic', detail)"""
    if res.outcome != "ok":
        return "panic", str(res.value)
    v = res.value
    if isinstance(v, En) and v.variant == "Ok":
        return "ok", None
    if isinstance(v, En) and v.variant == "Err":
        e = v.fields[0]
        return "err", e
    return "panic", f"unexpected return {v!r}"


def spec_view(res, meta):
    """view of (state before, state after) of one path for the spec functions"""
    proc = res.models
    ctx = res.ctx
    st = proc.stack
    info = res.info
    top = [x.l for x in info["top_before"]]
    nxt = [(x.l if x is not None else ctx.var(f"unset_next{i}")) for i, x in enumerate(st.next)]
    sysm = proc.system
    helpers = [Lin({}, 0)] * 6
    for ev in res.events:
        if ev[0] == "decoder" and ev[1] == "set_user_op_helpers":
            vals = pm.deref(ev[2][1])
            helpers = [v.l for v in vals] + [Lin({}, 0)] * (6 - len(vals))
    cells = dict(
        b0=Lin({}, 16 + info["overflow_items"]), b1=info["b1_before"].l, h0=Lin({}, 0),
        b0n=st.next_b0.l if st.next_b0 is not None else ctx.var("unset_b0n"),
        b1n=st.next_b1.l if st.next_b1 is not None else ctx.var("unset_b1n"),
        clk=info["clk_before"].l, clkn=info["clk_after"].l if "clk_after" in info else ctx.var("unset_clkn"),
        fmp=info["fmp_before"].l, fmpn=sysm.by_name("fmp").l,
        hp=helpers,
    )
    view = specmod.S(ctx, top, nxt, cells)
    # what the operation asked of the memory chiplet and of the advice provider, in order
    view.mem = [(ev[1].split("::")[-1], ev[2], ev[3]) for ev in res.events if ev[0] == "chiplets" and "mem" in ev[1]]
    view.adv = [ev[2] for ev in res.events if ev[0] == "host" and "pop_adv" in ev[1]]
    view.ctxid = info.get("ctx_before")
    return view


def run_op(interp, meta, op_name, overflow_items):
    """paths of Process::execute_op(op) from an arbitrary state with `overflow_items` items below
    the top 16; facts about the state before/after are attached as PathResult.info"""
    def make_run(it):
        proc = opsum.make_state(it, meta.cols, overflow_items)
        it.begin_run(proc)
        op = opsum.operation_value(it, op_name)
        ref = mirsym.Ref({"p": proc}, "p")
        it.info.update(overflow_items=overflow_items, b1_before=proc.stack.b1, top_before=list(proc.stack.top),
                       clk_before=proc.system.clk_felt(it), fmp_before=proc.system.by_name("fmp"),
                       clk_int=proc.system.clk.v, max_cycles=proc.max_cycles.v, ctx_before=z3.Int("ctxid"),
                       overflow_before=list(proc.stack.overflow), op=op)

        def thunk():
            r = it.call("operations::<impl Process<H>>::execute_op", [ref, op])
            it.info["clk_after"] = proc.system.clk_felt(it)
            it.info["clk_int_after"] = proc.system.clk.v
            return r
        return thunk

    return interp.explore(make_run)
