"""C14, step iterator clause: "The step iterator reports at clock t exactly the stack, free-memory
pointer, context and memory that the trace holds at row t, in both stepping directions."

Engine C on the MIR of miden-processor: VmStateIterator::next and VmStateIterator::back are executed
from an ARBITRARY iterator state (symbolic clk, direction flag, asmop index, final system clock; no
pending error).  The components the iterator reads - System::get_ctx_at / get_fmp_at,
Stack::get_state_at, Chiplets::get_mem_state_at, the decoder's debug operation list - are
uninterpreted functions of their arguments (each call is logged with its symbolic arguments and returns
a fresh value).  Decided per path, for the VmState returned:
  T1  every component is queried at the clock value the state is labelled with (state.clk): context,
      fmp, stack, memory; the operation is the one recorded for cycle clk-1;
  T2  the memory is rebuilt for the context reported in the same state (the value get_ctx_at returned
      for that clock), and the reported ctx / fmp / stack / memory are exactly the values returned by
      those queries;
  T3  stepping moves the cursor by exactly one row (next: clk+1, back: clk-1 after the reported row);
      no panic for clk <= final clock + 1 < 2^31.
One arbitrary step covers stepping histories of any length and any direction changes.  Counterexamples
are replayed natively: the replay job `step_iter` walks a real execution forward, then replays the
history "next to t, back, next" for every t and compares every re-reported state with the forward one."""
import os
import re
import sys

import z3

sys.path.insert(0, os.path.join(os.path.dirname(os.path.abspath(__file__)), "..", "lib"))
import masmsym  # noqa: E402
import mirsym  # noqa: E402
import opsum  # noqa: E402
import procmodel as pm  # noqa: E402
import rustlib  # noqa: E402
from common import REPO, save_replay  # noqa: E402
from mir_parse import Unsupported  # noqa: E402
from mirsym import En, I, Opaque, Ref, Struct, UNIT  # noqa: E402

PROP = "C14"

DEMO_SRC = """
proc.callee
    push.7 push.3 mem_store add
end
begin
    push.1 push.2 mem_store
    call.callee
    push.5 push.6 mem_store drop
end
"""


class OpsList:
    """decoder.debug_info().operations(): an uninterpreted sequence; indexing logs the index"""

    def __init__(self, it):
        self.it = it

    def __len__(self):
        return 2**31

    def index_box(self, interp, i):
        v = Opaque("operation")
        interp.info["events"].append(("operations[]", [i], v))
        return {"x": v}, "x"


def natives():
    def ev(it, name, args, result):
        it.info["events"].append((name, args, result))
        return result

    def val(x):
        x = pm.deref(x)
        if isinstance(x, Struct):
            x = x[0]
        return x.v if isinstance(x, I) else x

    def n_sys_clk(it, a, d, m):
        return I(it.info["sysclk"], "u32")

    def n_ctx_at(it, a, d, m):
        s = Struct()
        c = z3.Int(it.fresh("ctx"))
        it.assume(z3.And(c >= 0, c <= 2**32 - 1))
        s[0] = I(c, "u32")
        return ev(it, "get_ctx_at", [val(a[1])], s)

    def n_fmp_at(it, a, d, m):
        return ev(it, "get_fmp_at", [val(a[1])], Opaque(("fmp", len(it.info["events"]))))

    def n_stack_at(it, a, d, m):
        return ev(it, "get_state_at", [val(a[1])], Opaque(("stack", len(it.info["events"]))))

    def n_mem_at(it, a, d, m):
        return ev(it, "get_mem_state_at", [val(a[1]), val(a[2])], Opaque(("memory", len(it.info["events"]))))

    def n_asmop(it, a, d, m):
        flag = it.decide(z3.Bool(f"asmop_start_{len(it.info['events'])}"))
        return [Opaque("asmop"), flag]

    def n_ops(it, a, d, m):
        return Ref({"o": OpsList(it)}, "o")

    def n_sat_sub(it, a, d, m):
        x, y = a[0].v, a[1].v
        if isinstance(x, int) and isinstance(y, int):
            return I(max(x - y, 0), m.group(1))
        return I(z3.If(z(x) >= z(y), z(x) - z(y), z3.IntVal(0)), m.group(1))

    R = re.compile
    return [
        (R(r"core::num::<impl (u8|u16|u32|u64|usize)>::saturating_sub"), n_sat_sub),
        (R(r"(?:system::)?System::clk"), n_sys_clk),
        (R(r"(?:system::)?System::get_ctx_at"), n_ctx_at),
        (R(r"(?:system::)?System::get_fmp_at"), n_fmp_at),
        (R(r"Stack::get_state_at"), n_stack_at),
        (R(r"Chiplets::get_mem_state_at"), n_mem_at),
        (R(r"VmStateIterator::get_asmop"), n_asmop),
        (R(r"Decoder::debug_info"), lambda it, a, d, m: Opaque("debug_info")),
        (R(r"DebugInfo::operations"), n_ops),
    ]


def make_iter(it):
    order = opsum.struct_fields(os.path.join(REPO, "processor/src/debug.rs"), "VmStateIterator")
    clk, sysclk, idx = z3.Int("clk"), z3.Int("sysclk"), z3.Int("asmop_idx")
    fwd = z3.Bool("forward")
    it.assume(z3.And(clk >= 0, sysclk >= 0, sysclk <= 2**31 - 4, clk <= sysclk + 1, idx >= 1, idx <= 2**31))
    vals = dict(chiplets=Opaque("chiplets"), decoder=Opaque("decoder"), stack=Opaque("stack"), system=Opaque("system"),
                error=En("None", [], ty="Option"), clk=I(clk, "u32"), asmop_idx=I(idx, "usize"), forward=fwd,
                trace_len_summary=Opaque("tls"))
    st = Struct()
    for i, nm in enumerate(order):
        if nm not in vals:
            raise Unsupported(f"VmStateIterator has an unknown field {nm}")
        st[i] = vals[nm]
    it.info.update(sysclk=sysclk, clk0=clk, fwd0=fwd, order=order, events=[])
    return st


def run_step(interp, which):
    frag = "processor/src/debug.rs"
    fn = [n for n in interp.fns if n.endswith("::" + which) and frag in n and "VmStateIterator" in (interp.fns[n].args[0][1] if interp.fns[n].args else "")]
    if len(fn) != 1:
        raise Unsupported(f"VmStateIterator::{which} not found uniquely: {fn}")

    def make_run(it):
        it.begin_run(None)
        st = make_iter(it)
        box = {"s": st}
        it.info["iter"] = st
        return lambda: it.run_fn(it.fns[fn[0]].parsed(), [Ref(box, "s")])
    return interp.explore(make_run)


def field(st, order, name):
    return st[order.index(name)]


def z(x):
    return z3.IntVal(x) if isinstance(x, int) else x


def native_confirm(V, cov, tag, what):
    nat = masmsym.native([dict(kind="step_iter", source=DEMO_SRC)], "iter")[0]
    cov["native"] = cov.get("native", 0) + 1
    rep = dict(kind="step_iter", property=PROP, source=DEMO_SRC, native=nat, obligation=tag)
    if nat.get("status") != "ok" or nat.get("mismatches") or nat.get("n_panics"):
        path = save_replay(PROP, re.sub(r"[^A-Za-z0-9_]", "_", tag)[:70], rep)
        V.violation(tag, path, f"{what}; native stepping of a program with a call: mismatches {str(nat.get('mismatches', nat))[:400]} panics {nat.get('panics')}", key=f"iter:{tag.split('#')[0].split(':')[1]}:{tag.split(': ')[1][:2] if ': ' in tag else ''}")
    else:
        V.add(tag, "inconclusive", detail=f"{what} in the encoding; the native forward/backward walk of the demo program shows no mismatch")


def check(interp, which, V, cov):
    try:
        paths = run_step(interp, which)
    except Unsupported as e:
        V.add(f"iter:{which}", "inconclusive", detail=f"outside the interpreter's subset: {e}")
        return
    cov["paths"] += len(paths)
    n_states = 0
    for pi, res in enumerate(paths):
        tag = f"iter:{which}#p{pi}"
        s = z3.Solver()
        s.set("timeout", 60000)
        s.add(res.ctx.side)
        s.add(res.pc)
        if s.check() != z3.sat:
            continue
        if res.outcome != "ok":
            native_confirm(V, cov, f"{tag}: T3 no panic", f"VmStateIterator::{which} panics ({res.value})")
            continue
        out = pm.deref(res.value)
        if not isinstance(out, En):
            V.add(tag, "inconclusive", detail=f"unexpected result {out!r}")
            continue
        if out.variant == "None":
            V.add(f"{tag}: end of the walk (no state reported)", "discharged")
            continue
        st = pm.deref(out.fields[0])
        if isinstance(st, En):  # Ok(state)
            st = pm.deref(st.fields[0])
        n_states += 1
        order = opsum.struct_fields(os.path.join(REPO, "processor/src/debug.rs"), "VmState")
        get = lambda nm: st[nm] if nm in st else st[order.index(nm)]  # noqa: E731
        rclk = z(get("clk").v)
        evs = res.info["events"]
        by = {}
        for name, args, result in evs:
            by.setdefault(name, []).append((args, result))
        conj, shape = [], []
        for name in ("get_ctx_at", "get_fmp_at", "get_state_at", "get_mem_state_at"):
            shape.append(len(by.get(name, [])) == 1)
        if all(shape):
            conj.append(z(by["get_ctx_at"][0][0][0]) == rclk)
            conj.append(z(by["get_fmp_at"][0][0][0]) == rclk)
            conj.append(z(by["get_state_at"][0][0][0]) == rclk)
            conj.append(z(by["get_mem_state_at"][0][0][1]) == rclk)
            for args, _ in by.get("operations[]", []):
                conj.append(z(args[0]) == rclk - 1)
        t1 = z3.And(conj + [z3.BoolVal(all(shape))])
        # T2: values reported are the values queried; memory for the reported context
        t2c = [z3.BoolVal(all(shape))]
        if all(shape):
            ctx_res = by["get_ctx_at"][0][1]
            t2c.append(z(pm.deref(get("ctx"))[0].v) == z(ctx_res[0].v))
            t2c.append(z(by["get_mem_state_at"][0][0][0]) == z(ctx_res[0].v))
            t2c.append(z3.BoolVal(get("fmp") is by["get_fmp_at"][0][1]))
            t2c.append(z3.BoolVal(get("stack") is by["get_state_at"][0][1]))
            t2c.append(z3.BoolVal(get("memory") is by["get_mem_state_at"][0][1]))
        t2 = z3.And(t2c)
        it_st = res.info["iter"]
        o2 = res.info["order"]
        nclk = z(field(it_st, o2, "clk").v)
        nfwd = field(it_st, o2, "forward")
        nfwd = z3.BoolVal(nfwd) if isinstance(nfwd, bool) else nfwd
        if which == "next":
            t3 = nclk == rclk + 1
        else:
            t3 = nclk == z3.If(rclk >= 1, rclk - 1, 0)  # the cursor stays on row 0 at the beginning of the trace
        for lab, post, what in (("T1 every component queried at the reported clock", t1, "a component is queried at a clock different from the one the state is labelled with"),
                                ("T2 reported ctx/fmp/stack/memory are the queried values, memory of the reported context", t2, "the reported state mixes values of different rows / contexts"),
                                ("T3 cursor moves by one row", t3, "the cursor does not move by exactly one row")):
            s.push()
            s.add(z3.Not(post))
            r = s.check()
            cov["iter_queries"] = cov.get("iter_queries", 0) + 1
            if r == z3.unsat:
                V.add(f"{tag}: {lab}", "discharged")
            elif r == z3.sat:
                native_confirm(V, cov, f"{tag}: {lab[:2]}", f"VmStateIterator::{which}: {what}")
            else:
                V.add(f"{tag}: {lab}", "inconclusive", detail="solver unknown")
            s.pop()
    if n_states == 0:
        V.add(f"iter:{which}: some path reports a state", "inconclusive", detail="no path returned a state (vacuous)")


def run(V, cov):
    fns = opsum.load_fns("processor", "internals", refresh=False)
    consts = pm.base_consts(REPO)
    interp = mirsym.Interp(fns, natives() + rustlib.NATIVES + pm.NATIVES, consts, max_paths=500)
    for which in ("next", "back"):
        check(interp, which, V, cov)
