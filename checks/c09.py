"""C09 (partial) — prover-supplied hints cannot change results.
Engine D: the advice-consuming instructions u32clz / u32ctz / u32clo / u32cto / ilog2 / ext2inv are assembled by
the real assembler and executed symbolically (real operation bodies from the processor's MIR) with an
ADVERSARIAL host: every value popped from the advice stack is a fresh symbolic field element.  Per
completed path z3 decides that the result is the mathematically correct one (and the rest of the
stack is untouched); paths that end in an error are the "does not complete" alternative the property
allows.  Because the fully symbolic exploration does not always finish (ilog2), the same two facts are
also decided hint by hint: for every admissible hint value n (quick: a sample of n) the instruction is
executed with the hint fixed to n and the operand symbolic; a completed path must imply that n is the
correct result (soundness against that answer of the host) and an error path must be impossible for
operands whose correct result is n (an honest host completes); one more run with a symbolic hint above
the admissible range must not complete at all.
The 64-bit division routines of the standard library are decided under C16 with the same adversarial
advice; ext2inv/ext2div and the Merkle instructions are not encoded (extension-field inverse, RPO)."""
import os
import sys
import time

import z3

sys.path.insert(0, os.path.dirname(os.path.abspath(__file__)))
import c05_instr  # noqa: E402
from c05_instr import airq, ispec, masmsym, opsum  # noqa: E402
from field import P  # noqa: E402
from mir_parse import Unsupported  # noqa: E402
from common import Verdict, repo_fingerprint, save_replay, tier, write_evidence  # noqa: E402

PROP = "C09"
NO_SYMBOLIC_HINT = {"ilog2"}
NO_HINT_SPLIT = {"ext2inv"}  # the hint is a field-extension element: only the fully symbolic run applies
QUICK = ["u32clz", "u32ctz", "ilog2", "ext2inv"]
THOROUGH = ["u32clz", "u32ctz", "u32clo", "u32cto", "ilog2", "ext2inv"]


def _worker(args):
    name, root = args
    V = Verdict(PROP)
    cov = dict(paths=0, queries=0, solver_time_s=0.0, native_validated=0, ok_paths=0, err_paths=0)
    t0 = time.time()
    try:
        c05_instr.check_instruction(c05_instr._W["meta"], c05_instr._W["interp"], name, root, V, cov)
    except Exception as e:
        V.add(f"instr:{name}", "inconclusive", detail=f"{type(e).__name__}: {e}")
    for o in V.obligations:
        o["detail"] = None if o["detail"] is None else str(o["detail"])[:300]
    cov["times"] = [(name, round(time.time() - t0, 1))]
    return V.obligations, V.violations, V.known_hit, cov


def operand_class(name, v0, n):
    """operands whose honest hint is n (the result itself); empty for values no operand can have"""
    T32 = 2**32
    if n > (63 if name == "ilog2" else 32):
        return z3.BoolVal(False)
    if name == "u32clz":
        return v0 == 0 if n == 32 else z3.And(v0 >= 2**(31 - n), v0 < 2**(32 - n))
    if name == "u32clo":
        w = T32 - 1 - v0
        return z3.And(v0 < T32, w == 0) if n == 32 else z3.And(v0 < T32, w >= 2**(31 - n), w < 2**(32 - n))
    if name == "u32ctz":
        return v0 == 0 if n == 32 else z3.And(v0 < T32, v0 % 2**(n + 1) == 2**n)
    if name == "u32cto":
        return v0 == T32 - 1 if n == 32 else z3.And(v0 < T32, v0 % 2**(n + 1) == 2**n - 1)
    if name == "ilog2":
        return z3.And(v0 >= 2**n, v0 < 2**(n + 1))
    raise ValueError(name)


def _honest_worker(args):
    """hint fixed to the concrete value n (or, for n = None, to an arbitrary value above the admissible
    range), operand symbolic within the documented precondition only:
      soundness    - a completed path implies that n is the correct result for the operand;
      completeness - an error path is only possible for operands whose correct result is not n
                     (so with the honest hint the instruction completes)."""
    name, root, n = args
    V = Verdict(PROP)
    interp, meta = c05_instr._W["interp"], c05_instr._W["meta"]
    tag = f"hint:{name}[hint={'>max' if n is None else n}]"
    hi = 63 if name == "ilog2" else 32

    def pre(it, init):
        if n is not None:
            it.advice_script = [n]
        v0 = it.ctx.value(init[0].l)
        if name != "ilog2":
            it.assume(v0 < 2**32)
        it.info["v0"] = v0

    try:
        try:
            paths = masmsym.run_mast(interp, meta, root, overflow_items=2, pre=pre)
        except Unsupported:
            # branch feasibility hit the solver caps (typically under machine load): one retry with generous caps
            saved = (interp.timeout_ms, interp.feas_first_ms)
            interp.timeout_ms, interp.feas_first_ms = 180000, 30000
            try:
                paths = masmsym.run_mast(interp, meta, root, overflow_items=2, pre=pre)
            finally:
                interp.timeout_ms, interp.feas_first_ms = saved
    except Exception as e:
        # the run with a symbolic out-of-range hint sometimes exceeds the branch-feasibility caps: reported as
        # not covered (it is an extra on top of the per-hint runs), never as a verdict
        V.add(tag, "not-covered" if n is None else "inconclusive", detail=f"{type(e).__name__}: {e}"[:300])
        return V.obligations, V.violations

    class BVFallback:
        """z3 (integer encoding) first; `unknown` goes to the exact bit-vector back end"""

        def __init__(self, res, extra):
            self.s = z3.Solver()
            self.s.set("timeout", 60000)
            self.s.add(res.ctx.side)
            self.s.add(res.pc)
            self.s.add(extra)
            self.asserts = list(self.s.assertions())  # read before check(): z3 may add internal skolems afterwards
            self.env = None

        def check(self):
            r = self.s.check()
            if r != z3.unknown:
                return r
            import bvquery
            st, info = bvquery.check_bv(self.asserts, timeout_ms=240000)
            if st == "unsat":
                return z3.unsat
            if st == "sat":
                self.env = info
                return z3.sat
            return z3.unknown

        def model(self):
            if self.env is not None:
                env = self.env

                class M:
                    def eval(self, v, model_completion=True):
                        return z3.IntVal(env.get(str(v), 0))
                return M()
            return self.s.model()

    def solver_for(res, extra):
        return BVFallback(res, extra)

    for pi, res in enumerate(paths):
        if res.outcome != "ok":
            V.add(f"{tag}#p{pi}", "inconclusive", detail=str(res.value)[:200])
            continue
        kind = res.value[0]
        v0 = res.info["v0"]
        ctx = res.ctx
        if n is None:
            # hint outside the admissible range: must not complete
            hints = [e[2] for e in res.events if e[0] == "host" and not isinstance(e[2], list)]
            if not hints:
                V.add(f"{tag}#p{pi}", "inconclusive", detail="no advice pop on this path")
                continue
            big = ctx.value(hints[0].l) > hi
            if kind == "ok":
                s = solver_for(res, [big])
                r = s.check()
                if r == z3.unsat:
                    V.add(f"{tag}#p{pi}: no completed path with a hint above {hi}", "discharged")
                elif r == z3.sat:
                    m = s.model()
                    env = {k: m.eval(v, model_completion=True).as_long() for k, v in ctx.atoms.items()}
                    confirm_dishonest(meta, name, res, env, f"{tag}#p{pi}: completes with a hint above {hi}", V)
                else:
                    V.add(f"{tag}#p{pi}: no completed path with a hint above {hi}", "not-covered", detail="solver unknown (extra obligation on top of the per-hint runs)")
            continue
        cls = operand_class(name, v0, n)
        if kind == "ok":
            top = res.value[1][0]
            s = solver_for(res, [z3.Not(z3.And(cls, ctx.value(top.l) == n))])
            r = s.check()
            oname = f"{tag}#p{pi}: a completed path implies that {n} is the correct result (and is what is returned)"
            if r == z3.unsat:
                V.add(oname, "discharged")
            elif r == z3.sat:
                m = s.model()
                env = {k: m.eval(v, model_completion=True).as_long() for k, v in ctx.atoms.items()}
                confirm_dishonest(meta, name, res, env, oname, V, hint=n)
            else:
                V.add(oname, "inconclusive", detail="solver unknown")
        else:
            s = solver_for(res, [cls])
            r = s.check()
            oname = f"{tag}#p{pi}: the error path is not taken for operands whose result is {n} (honest host completes)"
            if r == z3.unsat:
                V.add(oname, "discharged")
            elif r == z3.sat:
                m = s.model()
                env = {k: m.eval(v, model_completion=True).as_long() for k, v in ctx.atoms.items()}
                c05_instr.confirm_honest(meta, name, env, oname, V, dict(native_validated=0))
            else:
                V.add(oname, "inconclusive", detail="solver unknown")
    if not paths:
        V.add(tag, "inconclusive", detail="no feasible path")
    for o in V.obligations:
        o["detail"] = None if o["detail"] is None else str(o["detail"])[:300]
    return V.obligations, V.violations


def confirm_dishonest(meta, name, res, env, oname, V, hint=None):
    """native run with the scripted host returning the model's hint; compared with the integer function"""
    import re as _re
    c = meta.cols
    K = c05_instr.K
    stack = [env.get(f"c{c['STACK']+i}", 0) for i in range(16)] + [env.get(f"ov{K-1-j}", 0) for j in range(K)]
    if hint is None:
        hs = [e[2] for e in res.events if e[0] == "host" and not isinstance(e[2], list)]
        l = hs[0].l
        hint = l.const if l.is_const() else env.get(next(iter(l.terms)), 0)
    src = f"begin {name} end"
    nat = masmsym.native([{"kind": "exec_masm", "source": src, "stack": [str(x) for x in stack], "max_cycles": 100000, "hints": [str(hint)]}], "c09d")[0]
    x = stack[0]
    T32 = 2**32
    true = {"u32clz": lambda: 32 - x.bit_length(), "u32clo": lambda: 32 - (T32 - 1 - x).bit_length(),
            "u32ctz": lambda: 32 if x == 0 else (x & -x).bit_length() - 1, "u32cto": lambda: 32 if x == T32 - 1 else ((~x & (x + 1)).bit_length() - 1),
            "ilog2": lambda: None if x == 0 else x.bit_length() - 1}[name]()
    path = save_replay(PROP, "hint_" + _re.sub(r"[^A-Za-z0-9_]", "_", f"{name}_{hint}"), dict(kind="exec_masm", source=src, stack=[str(v) for v in stack], hints=[str(hint)], native=nat, correct=true))
    if nat["status"] == "ok" and (true is None or int(nat["stack"][0]) != true):
        V.violation(oname, path, f"`{src}` on operand {x} with the host answering {hint}: completes with {nat['stack'][0]}, the correct result is {true if true is not None else 'a failure'}", key=f"hint:{name}")
    else:
        V.add(oname, "inconclusive", detail=f"solver counterexample (operand {x}, hint {hint}) did not reproduce natively: {str(nat)[:120]}")


def hint_values(name, quick):
    hi = 63 if name == "ilog2" else 32
    lo = 0
    # values above the admissible range are run as concrete hints too (they must never complete): concrete
    # hints fold the exponentiation chain and are decided reliably, unlike the symbolic out-of-range run
    if quick:
        return sorted({lo, 1, hi // 2, hi - 1, hi, hi + 1, 63, 64})
    return list(range(lo, 66)) + [2**32, P - 1] + [None]


def main():
    t0 = time.time()
    c05_instr.PROP = PROP
    V = Verdict(PROP)
    meta = airq.get_meta()
    opsum.load_fns()
    names = QUICK if tier() == "quick" else THOROUGH
    only = [a for a in sys.argv[1:] if not a.startswith("-")]
    if only:
        names = only
    asm = masmsym.assemble([f"begin {n} end" for n in names])
    todo = []
    for n, a in zip(names, asm):
        if a["status"] != "ok":
            V.add(f"instr:{n}", "inconclusive", detail=f"assembler: {a}")
        else:
            todo.append((n, a["root"]))
    interp = opsum.make_interp(max_paths=2000)
    if tier() != "quick":
        interp.timeout_ms, interp.feas_first_ms = 60000, 10000  # the thorough tier can wait for the solver
    c05_instr._W.update(meta=meta, interp=interp)
    import multiprocessing as mp_
    n = int(os.environ.get("VERIF_JOBS", "0")) or max(1, min(12, (os.cpu_count() or 2) - 2))
    # fully symbolic hint: explored for the u32 bit-counting instructions; for ilog2 the exploration does not
    # finish within the caps (measured: > 30 minutes), its hints are covered one by one below
    sym = [t for t in todo if t[0] not in NO_SYMBOLIC_HINT and (tier() != "quick" or only or t[0] in NO_HINT_SPLIT)]
    results = []
    if sym:
        with mp_.get_context("fork").Pool(min(n, len(sym))) as pool:
            results = pool.map(_worker, sym, chunksize=1)
    with mp_.get_context("fork").Pool(n) as pool:
        hres = pool.map(_honest_worker, [(nm, root, h) for nm, root in todo for h in hint_values(nm, tier() == "quick")
                                         if not (h is None and nm in NO_SYMBOLIC_HINT) and nm not in NO_HINT_SPLIT], chunksize=1)
    hint_runs = len(hres)
    for obs, vio in hres:
        V.obligations += obs
        V.violations += vio
        V.inconclusive += [o["name"] for o in obs if o["status"] == "inconclusive"]
    cov = dict(paths=0, queries=0, solver_time_s=0.0, native_validated=0, times=[])
    for obs, vio, kh, pc in results:
        V.obligations += obs
        V.violations += vio
        V.known_hit += kh
        V.inconclusive += [o["name"] for o in obs if o["status"] == "inconclusive"]
        for k_, v_ in pc.items():
            cov[k_] = cov.get(k_, 0) + v_ if not isinstance(v_, list) else cov.get(k_, []) + v_
    names_ = " ".join(o["name"] for o in V.obligations)
    for nme, _ in todo:
        if nme in NO_HINT_SPLIT:
            okx = f"instr:{nme}#" in names_ and "result * operand = 1" in names_
            V.add(f"{nme}: vacuity guard - completed paths with the inverse relation exist", "discharged" if okx else "inconclusive")
            continue
        ok = f"hint:{nme}[" in names_ and "a completed path implies" in names_
        dish = f"hint:{nme}[" in names_ and "the error path is not taken" in names_
        V.add(f"{nme}: vacuity guard - completed paths and rejected-hint paths both exist", "discharged" if ok and dish else "inconclusive")
    c = V.counts()
    coverage = dict(
        states=max(1, cov["paths"] + hint_runs), transitions=c.get("discharged", 0), traces_validated_against_impl=cov.get("native_validated", 0),
        samples=V.obligations[:6] + [o for o in V.obligations if o["status"] != "discharged"][:4],
        obligations=len(V.obligations), discharged=c.get("discharged", 0), queries=cov["queries"], solver_time_s=round(cov["solver_time_s"], 1),
        instructions=[n_ for n_, _ in todo], instruction_times=cov["times"],
        functions_encoded=["assembler expansion of the instruction (real assembler, replay binary)", "Process::execute_op and the op_* bodies it reaches (MIR)"],
        modelled_natively=["advice provider: every popped value is a fresh symbolic field element (adversarial host)", "stack / system components (abstract models validated in C05)"],
        bounds="one instruction on a symbolic stack of depth 18; operand below 2^32 (u32 instructions) / any non-zero field element (ilog2)",
        not_covered="ext2div (same verification as ext2inv after a multiplication), ilog2 with a hint above 63 (the symbolic-hint exploration does not finish; every hint 0..63 is covered one by one), mtree_get/mtree_set/mtree_verify (RPO), adv_push/adv_loadw/adv_pipe ordering, honest-host injectors (decorators are not part of the executed MAST model); "
                    "u64 division with adversarial advice is decided under C16",
        sources_fingerprint=repo_fingerprint(["assembly/src/assembler/instruction/u32_ops.rs", "assembly/src/assembler/instruction/field_ops.rs", "processor/src/operations"]),
        evaluations=len(V.obligations), distinct_nontrivial=c.get("discharged", 0), rule="one obligation per (instruction, path, stack item / failure condition)",
    )
    write_evidence(PROP, "model_checking", coverage, ["field/integer encoding (lib/field.py), bit-vector back end", "block semantics of C06", "z3"], time.time() - t0, violations=len(V.violations))
    V.finish()


if __name__ == "__main__":
    main()
