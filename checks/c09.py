"""C09 (partial) — prover-supplied hints cannot change results.
Engine D: the advice-consuming instructions u32clz / u32ctz / u32clo / u32cto / ilog2 are assembled by
the real assembler and executed symbolically (real operation bodies from the processor's MIR) with an
ADVERSARIAL host: every value popped from the advice stack is a fresh symbolic field element.  Per
completed path z3 decides that the result is the mathematically correct one (and the rest of the
stack is untouched); paths that end in an error are the "does not complete" alternative the property
allows.  Honest host: for every hint value n (quick: a sample of n) the instruction is executed again
with the hint fixed to n and the operand restricted to the class whose correct result is n; every
path must complete with n on top (a feasible error path is replayed natively with the real host).
The 64-bit division routines of the standard library are decided under C16 with the same adversarial
advice; ext2inv/ext2div and the Merkle instructions are not encoded (extension-field inverse, RPO)."""
import os
import sys
import time

import z3

sys.path.insert(0, os.path.dirname(os.path.abspath(__file__)))
import c05_instr  # noqa: E402
from c05_instr import airq, ispec, masmsym, opsum  # noqa: E402
from common import Verdict, repo_fingerprint, tier, write_evidence  # noqa: E402

PROP = "C09"
QUICK = ["u32clz"]
THOROUGH = ["u32clz", "u32ctz", "u32clo", "u32cto", "ilog2"]


def _worker(args):
    name, root = args
    V = Verdict(PROP)
    cov = dict(paths=0, queries=0, solver_time_s=0.0, native_validated=0, ok_paths=0, err_paths=0)
    t0 = time.time()
    try:
        c05_instr.check_instruction(c05_instr._W["meta"], c05_instr._W["interp"], name, root, V, cov)
    except Exception as e:
        V.add(f"instr:{name}", "inconclusive", detail=f"{type(e).__name__}: {e}")
    for o in V.obligations:
        o["detail"] = None if o["detail"] is None else str(o["detail"])[:300]
    cov["times"] = [(name, round(time.time() - t0, 1))]
    return V.obligations, V.violations, V.known_hit, cov


def operand_class(name, v0, n):
    """operands whose honest hint is n (the result itself)"""
    T32 = 2**32
    if name == "u32clz":
        return v0 == 0 if n == 32 else z3.And(v0 >= 2**(31 - n), v0 < 2**(32 - n))
    if name == "u32clo":
        w = T32 - 1 - v0
        return z3.And(v0 < T32, w == 0) if n == 32 else z3.And(v0 < T32, w >= 2**(31 - n), w < 2**(32 - n))
    if name == "u32ctz":
        return v0 == 0 if n == 32 else z3.And(v0 < T32, v0 % 2**(n + 1) == 2**n)
    if name == "u32cto":
        return v0 == T32 - 1 if n == 32 else z3.And(v0 < T32, v0 % 2**(n + 1) == 2**n - 1)
    if name == "ilog2":
        return z3.And(v0 >= 2**n, v0 < 2**(n + 1))
    raise ValueError(name)


def _honest_worker(args):
    """honest host: the hint is the result n; for every operand of that class the instruction completes with n on top"""
    name, root, n = args
    V = Verdict(PROP)
    interp, meta = c05_instr._W["interp"], c05_instr._W["meta"]
    tag = f"honest:{name}[hint={n}]"

    def pre(it, init):
        it.advice_script = [n]
        v0 = it.ctx.value(init[0].l)
        it.assume(operand_class(name, v0, n))

    try:
        paths = masmsym.run_mast(interp, meta, root, overflow_items=2, pre=pre)
    except Exception as e:
        V.add(tag, "inconclusive", detail=f"{type(e).__name__}: {e}"[:300])
        return V.obligations, V.violations
    for pi, res in enumerate(paths):
        if res.outcome != "ok":
            V.add(f"{tag}#p{pi}", "inconclusive", detail=str(res.value)[:200])
            continue
        kind = res.value[0]
        if kind == "ok":
            top = res.value[1][0]
            s = z3.Solver()
            s.set("timeout", 60000)
            s.add(res.ctx.side)
            s.add(res.pc)
            s.add(res.ctx.value(top.l) != n)
            r = s.check()
            if r == z3.unsat:
                V.add(f"{tag}#p{pi}: completes with the result {n}", "discharged")
            else:
                V.add(f"{tag}#p{pi}: completes with the result {n}", "inconclusive", detail=f"solver {r}")
        else:
            # a feasible error path under the honest hint: replay natively with the real default host
            s = z3.Solver()
            s.add(res.ctx.side)
            s.add(res.pc)
            if s.check() == z3.sat:
                m = s.model()
                env = {k: m.eval(v, model_completion=True).as_long() for k, v in res.ctx.atoms.items()}
                c05_instr.confirm_honest(meta, name, env, f"{tag}#p{pi}: no error with the honest hint", V, dict(native_validated=0))
    if not paths:
        V.add(tag, "inconclusive", detail="no feasible path")
    for o in V.obligations:
        o["detail"] = None if o["detail"] is None else str(o["detail"])[:300]
    return V.obligations, V.violations


def hint_values(name, quick):
    hi = 63 if name == "ilog2" else 32
    lo = 0
    if quick:
        return sorted({lo, 1, hi // 2, hi - 1, hi})
    return list(range(lo, hi + 1))


def main():
    t0 = time.time()
    c05_instr.PROP = PROP
    V = Verdict(PROP)
    meta = airq.get_meta()
    opsum.load_fns()
    names = QUICK if tier() == "quick" else THOROUGH
    only = [a for a in sys.argv[1:] if not a.startswith("-")]
    if only:
        names = only
    asm = masmsym.assemble([f"begin {n} end" for n in names])
    todo = []
    for n, a in zip(names, asm):
        if a["status"] != "ok":
            V.add(f"instr:{n}", "inconclusive", detail=f"assembler: {a}")
        else:
            todo.append((n, a["root"]))
    interp = opsum.make_interp(max_paths=2000)
    c05_instr._W.update(meta=meta, interp=interp)
    import multiprocessing as mp_
    n = int(os.environ.get("VERIF_JOBS", "0")) or max(1, min(12, (os.cpu_count() or 2) - 2))
    with mp_.get_context("fork").Pool(min(n, len(todo) or 1)) as pool:
        results = pool.map(_worker, todo, chunksize=1)
    with mp_.get_context("fork").Pool(n) as pool:
        hres = pool.map(_honest_worker, [(nm, root, h) for nm, root in todo for h in hint_values(nm, tier() == "quick")], chunksize=1)
    for obs, vio in hres:
        V.obligations += obs
        V.violations += vio
        V.inconclusive += [o["name"] for o in obs if o["status"] == "inconclusive"]
    cov = dict(paths=0, queries=0, solver_time_s=0.0, native_validated=0, times=[])
    for obs, vio, kh, pc in results:
        V.obligations += obs
        V.violations += vio
        V.known_hit += kh
        V.inconclusive += [o["name"] for o in obs if o["status"] == "inconclusive"]
        for k_, v_ in pc.items():
            cov[k_] = cov.get(k_, 0) + v_ if not isinstance(v_, list) else cov.get(k_, []) + v_
    names_ = " ".join(o["name"] for o in V.obligations)
    for nme, _ in todo:
        ok = f"instr:{nme}#" in names_ and "item 0" in names_
        dish = f"instr:{nme}" in names_ and "dishonest hint" in names_
        V.add(f"{nme}: vacuity guard - completed paths and rejected-hint paths both exist", "discharged" if ok and dish else "inconclusive")
    c = V.counts()
    coverage = dict(
        states=cov["paths"], transitions=c.get("discharged", 0), traces_validated_against_impl=cov.get("native_validated", 0),
        samples=V.obligations[:6] + [o for o in V.obligations if o["status"] != "discharged"][:4],
        obligations=len(V.obligations), discharged=c.get("discharged", 0), queries=cov["queries"], solver_time_s=round(cov["solver_time_s"], 1),
        instructions=[n_ for n_, _ in todo], instruction_times=cov["times"],
        functions_encoded=["assembler expansion of the instruction (real assembler, replay binary)", "Process::execute_op and the op_* bodies it reaches (MIR)"],
        modelled_natively=["advice provider: every popped value is a fresh symbolic field element (adversarial host)", "stack / system components (abstract models validated in C05)"],
        bounds="one instruction on a symbolic stack of depth 18; operand below 2^32 (u32 instructions) / any non-zero field element (ilog2)",
        not_covered="ext2inv/ext2div, mtree_get/mtree_set/mtree_verify (RPO), adv_push/adv_loadw/adv_pipe ordering, honest-host injectors (decorators are not part of the executed MAST model); "
                    "u64 division with adversarial advice is decided under C16",
        sources_fingerprint=repo_fingerprint(["assembly/src/assembler/instruction/u32_ops.rs", "assembly/src/assembler/instruction/field_ops.rs", "processor/src/operations"]),
        evaluations=len(V.obligations), distinct_nontrivial=c.get("discharged", 0), rule="one obligation per (instruction, path, stack item / failure condition)",
    )
    write_evidence(PROP, "model_checking", coverage, ["field/integer encoding (lib/field.py), bit-vector back end", "block semantics of C06", "z3"], time.time() - t0, violations=len(V.violations))
    V.finish()


if __name__ == "__main__":
    main()
