"""C14 (partial) — decorators never change VM state or the cycle count; every executed operation
reserves trace capacity first and advances the clock exactly once, last.
[C] execute_decorator (MIR): for every Decorator variant and every path, the event log contains only
    host callbacks and decoder.append_asmop; no stack/system mutator, no clock advance.
[C] execute_op (MIR): on every Ok path the first event is the capacity reservation and the only clock
    advance is the last state-changing event; on Err paths the clock never advanced."""
import os
import re
import sys
import time

import z3

sys.path.insert(0, os.path.dirname(os.path.abspath(__file__)))
import procops  # noqa: E402
from procops import CONTROL, airq, classify, mirsym, opsum, pm, run_op  # noqa: E402
from common import REPO, Verdict, log, repo_fingerprint, save_replay, seed, tier, write_evidence  # noqa: E402
from mir_parse import Unsupported  # noqa: E402
from mirsym import En, F, I, Opaque, Ref, Struct, UNIT  # noqa: E402

PROP = "C14"


def decorator_paths(interp, meta, variant):
    fn = [n for n in interp.fns if n.endswith("::execute_decorator") and "processor/src/lib.rs" in n]
    assert len(fn) == 1, fn

    def host_cb(it, a, d, m):
        it.events.append(("host", m.group(1)))
        # a host callback may fail
        if it.decide(z3.Bool(it.fresh("host_fails"))):
            return En("Err", [En("HostError", [], ty="ExecutionError")], ty="Result")
        return En("Ok", [Opaque("HostResponse")], ty="Result")

    def in_debug(it, a, d, m):
        return z3.Bool("decoder_debug_mode")

    def append_asmop(it, a, d, m):
        it.events.append(("decoder", "append_asmop"))
        return UNIT

    nat = [
        (re.compile(r"<H as Host>::(set_advice|on_debug|on_event|on_trace)::<Process<H>>"), host_cb),
        (re.compile(r"Decoder::in_debug_mode"), in_debug),
        (re.compile(r"Decoder::append_asmop"), append_asmop),
        (re.compile(r"<AssemblyOp as Clone>::clone"), lambda it, a, d, m: Opaque("asmop")),
    ]

    def make_run(it):
        proc = opsum.make_state(it, meta.cols, 1)
        proc.enable_tracing = z3.Bool("enable_tracing")
        it.begin_run(proc)
        it.info["top_before"] = list(proc.stack.top)
        it.info["clk"] = proc.system.clk.v
        it.info["fmp"] = proc.system.by_name("fmp")
        payload = {"Advice": Opaque("injector"), "AsmOp": Opaque("asmop"), "Debug": Opaque("options"),
                   "Event": I(z3.Int("event_id"), "u32"), "Trace": I(z3.Int("trace_id"), "u32")}[variant]
        dec = En(variant, [payload], ty="miden_core::Decorator")
        return lambda: it.run_fn(it.fns[fn[0]].parsed(), [Ref({"p": proc}, "p"), Ref({"d": dec}, "d")])

    saved = interp.natives
    interp.natives = nat + saved
    interp.consts["enum_variants"]["Decorator"] = pm.enum_variants(os.path.join(REPO, "core/src/operations/decorators/mod.rs"), "Decorator")
    try:
        return interp.explore(make_run)
    finally:
        interp.natives = saved


def check_decorators(interp, meta, V, cov):
    for variant in ("Advice", "AsmOp", "Debug", "Event", "Trace"):
        try:
            paths = decorator_paths(interp, meta, variant)
        except Unsupported as e:
            V.add(f"decorator:{variant}", "inconclusive", detail=str(e))
            continue
        cov["paths"] += len(paths)
        for pi, res in enumerate(paths):
            proc = res.models
            allowed = all(e[0] in ("host",) or (e[0] == "decoder" and e[1] == "append_asmop") for e in res.events)
            st = proc.stack
            unchanged = (all(a is b for a, b in zip(st.top, res.info["top_before"])) and all(x is None for x in st.next)
                         and not st.log and proc.system.clk.v is res.info["clk"] and proc.system.by_name("fmp") is res.info["fmp"])
            name = f"decorator:{variant}#p{pi}: only host callbacks / append_asmop, no state or clock change"
            if res.outcome != "ok":
                V.add(name, "inconclusive", detail=str(res.value))
            elif allowed and unchanged:
                V.add(name, "discharged", detail=str([e[:2] for e in res.events]))
            else:
                path = save_replay(PROP, f"decorator_{variant}_{pi}", dict(kind="decorator", variant=variant, events=[str(e[:2]) for e in res.events]))
                V.violation(name, path, f"decorator {variant}: events {[e[:2] for e in res.events]} / state changed: {not unchanged}", key=f"decorator:{variant}")
        hosts = {e[1] for r in paths for e in r.events if e[0] == "host"}
        want = {"Advice": "set_advice", "Debug": "on_debug", "Event": "on_event", "Trace": "on_trace"}.get(variant)
        if want:
            V.add(f"decorator:{variant}: reaches the host callback {want}", "discharged" if want in hosts else "inconclusive", detail=str(hosts))


def check_op_order(interp, meta, V, cov, names):
    for name in names:
        try:
            paths = run_op(interp, meta, name, 0)
        except Unsupported as e:
            V.add(f"order:{name}", "not-covered", detail=str(e))
            continue
        cov["paths"] += len(paths)
        for pi, res in enumerate(paths):
            kind, detail = classify(res)
            ev = [(e[0], e[1]) for e in res.events if e[0] in ("capacity", "stack")]
            adv = [i for i, e in enumerate(ev) if e == ("stack", "advance_clock")]
            oname = f"order:{name}#p{pi}"
            if kind == "ok":
                good = ev[:1] and ev[0][0] == "capacity" and len(adv) == 1 and adv[0] == len(ev) - 1
                if good:
                    V.add(oname + ": capacity first, one clock advance last", "discharged")
                else:
                    path = save_replay(PROP, f"order_{name}_{pi}", dict(kind="order", op=name, events=ev))
                    V.violation(oname, path, f"{name}: event order {ev}", key=f"order:{name}")
            elif kind == "err":
                if adv:
                    path = save_replay(PROP, f"order_{name}_{pi}", dict(kind="order", op=name, events=ev))
                    V.violation(oname, path, f"{name}: clock advanced on a failing path {ev}", key=f"order-err:{name}")
                else:
                    V.add(oname + ": no clock advance on the failing path", "discharged")


def main():
    t0 = time.time()
    V = Verdict(PROP)
    meta = airq.get_meta()
    interp = opsum.make_interp()
    cov = dict(paths=0)
    check_decorators(interp, meta, V, cov)
    names = [n for n in meta.ops if n not in CONTROL]
    if tier() == "quick":
        names = names[:40]
    check_op_order(interp, meta, V, cov, names)
    import c14_iter
    c14_iter.run(V, cov)
    c = V.counts()
    coverage = dict(
        states=cov["paths"], transitions=c.get("discharged", 0), traces_validated_against_impl=cov.get("native", 0),
        samples=V.obligations[:5] + [o for o in V.obligations if o["status"] != "discharged"][:5],
        obligations=len(V.obligations), discharged=c.get("discharged", 0),
        functions_encoded=["Process::execute_decorator (MIR)", "Process::execute_op, Process::ensure_trace_capacity, Process::advance_clock (MIR)",
                           "VmStateIterator::next, VmStateIterator::back (MIR) from an arbitrary iterator state: every component (ctx, fmp, stack, memory, operation) is queried at the clock the reported state is labelled with, memory of the reported context, cursor moves by one row, no panic"],
        bounds="one decorator / one operation from an arbitrary state; host callbacks are opaque and may fail; one iterator step (next / back) from an arbitrary cursor, direction flag and final clock < 2^31, no pending error",
        not_covered="the historical reconstruction behind the iterator's queries (System::get_ctx_at / get_fmp_at, Stack::get_state_at, Memory::get_state_at are uninterpreted here), the asmop bookkeeping of the iterator, identity of whole traces across runs, trace reallocation (capacity hint), assembling in debug mode",
        sources_fingerprint=repo_fingerprint(["processor/src/lib.rs", "processor/src/operations/mod.rs", "processor/src/debug.rs"]),
        evaluations=len(V.obligations), distinct_nontrivial=c.get("discharged", 0), rule="one obligation per (decorator variant | operation, path)",
    )
    write_evidence(PROP, "model_checking", coverage, ["host callbacks take the process by shared reference (ProcessState) and are modelled as pure events"], time.time() - t0,
                   violations=len(V.violations))
    V.finish()


if __name__ == "__main__":
    main()
