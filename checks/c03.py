"""C03 — honest rows satisfy the AIR (per-row completeness, translation-validation style).
For every VM operation and stack-depth regime, every successful path of the real
Process::execute_op (Engine C, MIR) yields a row pair; the real AIR's transition constraints for that
opcode (Engine A, symbolic instantiation) must all evaluate to zero on it.  The solver decides
   path condition  =>  constraint_j(row(state), row(step(state))) = 0   for every j.
Plus: whole real traces of a fixed set of programs are evaluated natively against the real AIR
(validation of both engines and of the boundary assertions), and the trace-length arithmetic."""
import json
import os
import random
import sys
import time

import z3

sys.path.insert(0, os.path.dirname(os.path.abspath(__file__)))
import c04_stack  # noqa: E402
import procops  # noqa: E402
from procops import CONTROL, airq, classify, mirsym, opsum, pm, run_op, spec_view, specmod  # noqa: E402
import airsolve  # noqa: E402
from common import WORK, Verdict, build_engine, log, repo_fingerprint, run, save_replay, seed, tier, write_evidence  # noqa: E402
from field import AXIOMS, P, Lin, load_dag  # noqa: E402
from mir_parse import Unsupported  # noqa: E402

PROP = "C03"
TMO = int(os.environ.get("VERIF_SOLVER_TIMEOUT_MS", "30000"))

PROGRAMS = [
    ("arith+loop+u32", "begin push.5 push.3 u32overflowing_add drop u32assert2 clk drop push.3 push.1 while.true dup.1 neq.0 if.true swap sub.1 swap push.1 else push.0 end end drop drop push.7 push.9 u32wrapping_add3 u32overflowing_madd drop drop u32assert end",
     [1, 2, 3, 4, 5, 6, 7, 8, 9, 10, 11, 12, 13, 14, 15, 16, 17, 18]),
    ("call+mem+hash", "proc.foo push.1 push.2 add drop end begin call.foo push.100 push.7 u32div drop u32split drop drop repeat.3 clk drop end push.1 push.2 u32overflowing_sub drop drop u32assert2 push.2.3 u32and drop push.1.5 mem_store.0 mem_load.0 drop drop hperm drop end",
     [3, 2, 1]),
    ("field+stackops", "begin push.3 push.4 mul inv neg push.0 eq not push.1 and push.0 or push.9 push.8 push.1 cswap movup.2 movdn.3 swapw dup.4 eq.0 drop ext2mul exp.5 sdepth drop push.1 assert padw dropw end",
     [9, 8, 7, 6, 5, 4, 3, 2, 1]),
    ("deep-stack", "begin repeat.20 push.7 end repeat.20 drop end dupw swapdw movup.8 swapw.3 cswapw end", [1, 0, 1, 0, 5, 6, 7, 8, 9]),
    ("calls", "proc.f push.1 drop end proc.g call.f push.2 drop end begin call.g call.f end", []),
    ("multi-batch-span", "begin repeat.80 push.1 drop end end", []),
    ("one-op-last-batch", "begin repeat.18 padw end drop repeat.72 drop end end", []),
    ("no-halt-row-255-cycles", "begin push.1 while.true repeat.80 push.1 drop end push.0 end end", []),
    ("mem-stream-first-read", "begin padw padw padw mem_stream dropw dropw dropw mem_load.77 drop end", []),
]


def row_varmap(res, meta):
    """cells of the (current, next) AIR row pair produced by one path"""
    c = meta.cols
    S = spec_view(res, meta)
    info = res.info
    ctx = res.ctx
    k = info["overflow_items"]
    vm = {}
    for i in range(16):
        vm[f"c{c['STACK']+i}"] = S.s[i]
        vm[f"n{c['STACK']+i}"] = S.n[i]
    vm[f"c{c['B0']}"] = Lin({}, 16 + k)
    vm[f"c{c['B1']}"] = S.b1
    vm[f"c{c['H0']}"] = Lin({}, pow(k, P - 2, P) if k else 0)  # h0 = 1/(b0 - 16), or 0 (batch inversion keeps zeros)
    vm[f"n{c['B0']}"] = S.b0n
    vm[f"n{c['B1']}"] = S.b1n
    vm[f"c{c['CLK']}"] = S.clk
    vm[f"n{c['CLK']}"] = S.clkn
    vm[f"c{c['FMP']}"] = S.fmp
    vm[f"n{c['FMP']}"] = S.fmpn
    for i in range(c["NUM_USER_OP_HELPERS"]):
        vm[f"c{c['USER_OP_HELPERS']+i}"] = S.hp[i]
    return vm, S


def check_op(meta, interp, ex, name, k, V, cov):
    try:
        paths = run_op(interp, meta, name, k)
    except Unsupported as e:
        V.add(f"{name}[k={k}]", "not-covered", detail=f"MIR construct outside the interpreter's subset: {e}")
        return
    r, job = ex[name]
    idx = c04_stack.stack_system_roots(meta, r)
    n_ok = 0
    for pi, res in enumerate(paths):
        kind, detail = classify(res)
        if kind != "ok":
            continue
        n_ok += 1
        vm, S = row_varmap(res, meta)
        ctx = res.ctx
        # documented preconditions of the operation ("values known to be smaller than 2^32"): outside
        # them the instruction reference calls the behaviour undefined and the trace need not be provable
        sp = specmod.SPEC[name](S)
        pre = [b for _, b in sp.get("pre", []) if "next" not in _]
        if name == "Expacc":
            # EXPACC is emitted by the assembler only after PAD or a previous EXPACC, so the current
            # top (the previous bit) is binary; the AIR's top-binary general constraint relies on it
            pre.append(S.is_bin(S.s[0]))
        # cells the path condition pins to a constant (e.g. the condition of CSWAP / CSWAPW on the
        # path where it is 1) enter the constraints as that constant: products with them fold away
        pinned = pinned_constants(ctx, res.pc)
        if pinned:
            vm = {cell: (l.subst_consts(pinned) if l is not None else None) for cell, l in vm.items()}
        try:
            roots = load_dag(ctx, r["arena"], [r["roots"][i] for i in idx], varmap=vm)
        except Exception as e:
            V.add(f"{name}[k={k}]#p{pi}", "inconclusive", detail=f"loading constraints: {e}")
            continue
        # every cell the constraints mention must have been supplied by the path
        missing = [a for a in ctx.atoms if (a[0] in "cn" and a[1:].isdigit() and a not in _known_atoms(res))]
        s = z3.Solver()
        s.set("timeout", TMO)
        s.add(ctx.side)
        s.add(res.pc)
        s.add(pre)
        if s.check() != z3.sat:
            continue
        cov["paths"] += 1
        for j, root in zip(idx, roots):
            t1 = time.time()
            post = ctx.is_zero(root)
            st, info = airsolve.decide(ctx, s, list(res.pc) + pre, post)
            cov["queries"] += 1
            cov["solver_time_s"] += time.time() - t1
            oname = f"{name}[k={k}]#p{pi}:constraint{j}"
            if st == "unsat":
                V.add(oname, "discharged", time.time() - t1)
            elif st == "sat":
                cov["candidates"].append((name, k, pi, j, info, res, vm))
                V.add(oname, "candidate", detail=str({a: v for a, v in info.items() if v})[:300])
            else:
                V.add(oname, "inconclusive", detail=str(info))
    if n_ok == 0:
        V.add(f"{name}[k={k}]:some-ok-path", "inconclusive", detail="no successful path")


def pinned_constants(ctx, pc):
    """{atom name: value} for path-condition conjuncts of the form  value(atom) == constant"""
    out = {}
    names = {v.get_id(): k for k, v in ctx.atoms.items()}

    def visit(e):
        if z3.is_and(e):
            for ch in e.children():
                visit(ch)
        elif z3.is_eq(e):
            a, b = e.arg(0), e.arg(1)
            if z3.is_int_value(a):
                a, b = b, a
            if z3.is_int_value(b) and a.get_id() in names:
                out[names[a.get_id()]] = b.as_long() % P
    for c_ in pc:
        visit(c_)
    return out


def _known_atoms(res):
    return set(res.ctx.atoms)


def confirm(meta, ex, cov, V):
    """replay: concrete honest row pair evaluated by the native AIR must show the non-zero constraint"""
    for name, k, pi, j, env, res, vm in cov["candidates"]:
        ctx = res.ctx
        W = meta.W
        cur, nxt = [0] * W, [0] * W
        e = dict(env)
        for cell, l in vm.items():
            val = ctx.eval_lin(l, e) if l is not None else 0
            (cur if cell[0] == "c" else nxt)[int(cell[1:])] = val
        r, job = ex[name]
        for kk, v in job["cur"].items():
            cur[int(kk)] = int(v)
        native = airq.run_jobs([{"kind": "eval", "cur": [str(x) for x in cur], "next": [str(x) for x in nxt], "per": []}], "c03_eval")[0]
        nz = int(native["results"][j]) != 0
        rep = dict(kind="honest_row_pair", property=PROP, op=name, overflow_items=k, constraint=j, cur=[str(x) for x in cur], next=[str(x) for x in nxt],
                   native_value=native["results"][j])
        path = save_replay(PROP, f"{name}_k{k}_c{j}", rep)
        if nz:
            V.violation(f"{name}[k={k}]:constraint{j}", path,
                        f"row pair produced by the processor for {name} violates transition constraint {j} (native evaluation {native['results'][j]})",
                        key=f"{name}:constraint{j}")
        else:
            V.add(f"{name}[k={k}]:constraint{j}", "inconclusive", detail="solver model did not reproduce natively")


def native_traces(V, cov):
    binp = build_engine("replay", release=True)
    d = os.path.join(WORK, "replay")
    os.makedirs(d, exist_ok=True)
    jf, of = os.path.join(d, "c03.in.json"), os.path.join(d, "c03.out.json")
    jobs = [{"kind": "trace_check", "source": src, "stack": [str(x) for x in st], "aux": True} for _, src, st in PROGRAMS]
    json.dump({"jobs": jobs}, open(jf, "w"))
    run([binp, jf, of])
    res = json.load(open(of))["results"]
    for (pname, src, st), r in zip(PROGRAMS, res):
        if r["status"] != "ok":
            V.add(f"native-trace:{pname}", "inconclusive", detail=str(r)[:200])
            continue
        cov["native_rows"] += r["rows"]
        fin = r.get("aux_final") or []
        # virtual tables and the chiplets bus must be back at 1 at the end of the trace (when a HALT row exists)
        open_tables = [i for i in (0, 1, 2, 5, 6) if i < len(fin) and fin[i] != "1"] if pname != "no-halt-row-255-cycles" else []
        if r["nonzero"] or r["bad_assertions"] or r.get("bad_aux_assertions") or open_tables:
            path = save_replay(PROP, f"trace_{pname}", dict(kind="trace_check", source=src, stack=st, result=r))
            V.violation(f"native-trace:{pname}", path, f"real trace of `{pname}` violates the AIR: {r['nonzero'][:3]} bad assertions {r['bad_assertions']}, bad aux assertions {r.get('bad_aux_assertions')}, virtual-table / bus columns not back at 1: {open_tables}",
                        key=f"trace:{pname}")
        else:
            V.add(f"native-trace:{pname}", "discharged", detail=f"{r['rows']} rows x {r['constraints']} constraints all zero; boundary assertions hold")


_W = {}


def _worker(args):
    """one operation (all regimes) in a worker process: obligations as plain data"""
    name, regimes = args
    if not _W:
        _W["meta"] = airq.get_meta()
        _W["interp"] = opsum.make_interp()
        _W["ex"] = c04_stack.extract(_W["meta"])
    V = Verdict(PROP)
    cov = dict(paths=0, queries=0, solver_time_s=0.0, candidates=[], native_rows=0)
    t_w = time.time()
    try:
        for k in regimes:
            check_op(_W["meta"], _W["interp"], _W["ex"], name, k, V, cov)
        confirm(_W["meta"], _W["ex"], cov, V)
    except Exception as e:  # engine trouble is inconclusive, never a verdict on miden-vm
        V.add(f"{name}", "inconclusive", detail=f"{type(e).__name__}: {e}")
    for o in V.obligations:
        o["detail"] = None if o["detail"] is None else str(o["detail"])[:300]
    if time.time() - t_w > 20:
        log(f"[C03] slow operation {name}: {time.time()-t_w:.1f}s")
    return V.obligations, V.violations, V.known_hit, {k: v for k, v in cov.items() if isinstance(v, (int, float))}


def parallel_ops(names, regimes):
    import multiprocessing as mp_
    # build shared inputs once in the parent (engines, MIR dump) so that workers only read them
    _W["meta"] = airq.get_meta()
    _W["interp"] = opsum.make_interp()
    _W["ex"] = c04_stack.extract(_W["meta"])
    n = int(os.environ.get("VERIF_JOBS", "0")) or max(1, min(12, (os.cpu_count() or 2) - 2))
    with mp_.get_context("fork").Pool(n) as pool:
        return pool.map(_worker, [(nm, regimes) for nm in names], chunksize=1)


def main():
    t0 = time.time()
    V = Verdict(PROP)
    meta = airq.get_meta()
    interp = opsum.make_interp()
    ex = c04_stack.extract(meta)
    cov = dict(paths=0, queries=0, solver_time_s=0.0, candidates=[], native_rows=0)
    regimes = [0, 1] if tier() == "quick" else [0, 1, 2, 5]
    names = [n for n in meta.ops if n not in CONTROL]
    only = [a for a in sys.argv[1:] if not a.startswith("-")]
    if only:
        names = [n for n in names if n in only]
    results = parallel_ops(names, regimes)
    for obs, vio, known_hit, pc in results:
        V.obligations += obs
        V.violations += vio
        V.known_hit += known_hit
        V.inconclusive += [o["name"] for o in obs if o["status"] == "inconclusive"]
        for k_, v_ in pc.items():
            cov[k_] = cov.get(k_, 0) + v_
    cov["candidates"] = []
    if not only:
        native_traces(V, cov)
        # auxiliary column p1 (stack overflow table): the builder's per-row requests / responses vs. the AIR's own shift flags
        import c03_aux
        c03_aux.run(meta, V, cov)
    c = V.counts()
    for o in V.obligations:
        if o["status"] == "candidate":
            o["status"] = "replayed"
    not_cov = sorted({o["name"].split("[")[0] for o in V.obligations if o["status"] == "not-covered"})
    samples = [o for o in V.obligations if o["status"] not in ("discharged", "replayed")][:6] + V.obligations[:3]
    coverage = dict(
        programs=cov["paths"], disagreements_checked=c.get("discharged", 0), samples=samples,
        obligations=len(V.obligations), discharged=c.get("discharged", 0),
        traces_validated_against_impl=cov["native_rows"],
        operations_not_covered=not_cov,
        functions_encoded=["Process::execute_op + op_* bodies (MIR, Engine C)", "ProcessorAir::evaluate_transition::<Sym> (Engine A)",
                           "aux p1: processor stack::aux_trace::AuxTraceBuilder::{get_requests_at,get_responses_at}, OverflowTableRow::{new,to_value}, "
                           "miden-air MainTrace::{is_left_shift,is_right_shift,is_non_empty_overflow,..} (MIR) vs. miden_air::stack::op_flags::OpFlags::{left_shift,right_shift} (Engine A)"],
        aux_p1=dict(opcodes=cov.get("aux_p1_opcodes"), paths=cov.get("aux_p1_paths"), queries=cov.get("aux_p1_queries")),
        bounds=f"one operation from an arbitrary state, depth regimes 16+k for k in {regimes}; control-flow rows, hasher/memory/bitwise chiplet rows, aux columns other than the per-row update of p1 (every opcode pattern, other cells symbolic) and b_range, and whole-trace composition are outside (native whole-trace evaluation of {len(PROGRAMS)} programs is validation, not the claim)",
        queries=cov["queries"], solver_time_s=round(cov["solver_time_s"], 2),
        sources_fingerprint=repo_fingerprint(["processor/src/operations", "processor/src/stack", "air/src/constraints/stack"]),
        evaluations=len(V.obligations), distinct_nontrivial=c.get("discharged", 0),
        rule="one obligation per (operation, depth regime, successful path, transition constraint)",
    )
    write_evidence(PROP, "translation_validation", coverage,
                   ["field axioms: " + "; ".join(AXIOMS), "trace-row layout: unused helper registers are ZERO, h0 = 1/(b0-16) or 0 (batch inversion), op bits per opcode",
                    "abstract Stack model incl. b0/b1 bookkeeping (validated natively in C05 and by the whole-trace evaluation here)"],
                   time.time() - t0, violations=len(V.violations))
    V.finish()


if __name__ == "__main__":
    main()
