"""C06 — control flow: the processor's block executors (MIR, Engine C).
execute_split_block / execute_loop_block / execute_join_block with their decoder-side start/end
halves are executed symbolically; children (`execute_code_block`) are opaque events that replace the
stack top by fresh symbolic values.  From the event log of every path the solver-side checks are:
 split: cond = 1 -> exactly on_true runs, cond = 0 -> exactly on_false, otherwise Err(NotBinaryValue), no child;
 loop : body runs exactly while the popped value is 1; exit needs a popped 0; any other value is an error;
 join : first then second; every block start/end row goes through execute_op exactly once."""
import json
import os
import random
import re
import sys
import time

import z3

sys.path.insert(0, os.path.dirname(os.path.abspath(__file__)))
import procops  # noqa: E402
from procops import airq, classify, mirsym, opsum, pm  # noqa: E402
from common import WORK, Verdict, build_engine, log, repo_fingerprint, run, save_replay, seed, tier, write_evidence  # noqa: E402
from field import P, Lin  # noqa: E402
from mir_parse import Unsupported  # noqa: E402
from mirsym import En, F, I, Opaque, Ref, UNIT  # noqa: E402

PROP = "C06"
MAX_ITER = 3


def block_natives(state):
    """natives for the block-level run: code blocks are opaque handles, children are havoc events"""
    def n_block_part(it, a, d, m):
        blk = pm.deref(a[0])
        return Opaque(f"{getattr(blk, 'what', blk)}.{m.group(2)}")

    def n_hash_ctrl(it, a, d, m):
        v = F(it.ctx.var(it.fresh("addr")))
        it.events.append(("chiplets", "hash_control_block", [pm.deref(x) for x in a[1:]]))
        return v

    def n_decoder(it, a, d, m):
        it.events.append(("decoder", m.group(1), [pm.deref(x) for x in a[1:]]))
        return UNIT

    def n_exec_child(it, a, d, m):
        proc = pm.deref(a[0])
        child = pm.deref(a[1])
        it.events.append(("child", getattr(child, "what", str(child))))
        state["children"] += 1
        # the child may do anything to the stack: fresh top, same depth class
        st = proc.stack
        st.top = [F(it.ctx.var(it.fresh("t"))) for _ in range(16)]
        st.next = [None] * 16
        it.info.setdefault("tops", []).append(st.top[0])
        if state["children"] > MAX_ITER + 1:
            # hard bound on the unrolling (reached only if the executor keeps iterating on values
            # other than 1): the path is cut here and not counted
            raise mirsym.Panic("loop unrolling bound", kind="infeasible")
        if state["children"] > MAX_ITER:
            # bound: after MAX_ITER body executions the loop is cut (the value on top is not 1)
            it.assume(it.ctx.value(st.top[0].l) != 1)
            it.info["cut"] = True
        # a failing child propagates its error (fork)
        if it.decide(z3.Bool(it.fresh("child_fails"))):
            return En("Err", [En("ChildError", [], ty="ExecutionError")], ty="Result")
        return En("Ok", [UNIT], ty="Result")

    return [
        (re.compile(r"miden_core::code_blocks::(Loop|Split|Join|Call|Dyn|Span)::(body|on_true|on_false|first|second|hash|fn_hash|is_syscall)"), n_block_part),
        (re.compile(r"CodeBlock::hash"), lambda it, a, d, m: Opaque("hash")),
        (re.compile(r"<RpoDigest as Into<\[Felt; 4\]>>::into"), lambda it, a, d, m: Opaque("word")),
        (re.compile(r"Chiplets::hash_control_block"), n_hash_ctrl),
        (re.compile(r"Decoder::(start_\w+|end_control_block|repeat|end_\w+)"), n_decoder),
        (re.compile(r"Process::<H>::execute_code_block"), n_exec_child),
    ]


def run_block(interp, meta, fn_suffix, block_name, extra_args=()):
    fn = [n for n in interp.fns if n.endswith("::" + fn_suffix) and "processor/src/lib.rs" in n]
    assert len(fn) == 1, fn
    state = {}

    def make_run(it):
        state["children"] = 0
        proc = opsum.make_state(it, meta.cols, 1)
        proc.stack.multi_step = True
        it.begin_run(proc)
        it.info["cond"] = proc.stack.top[0]
        it.info["top_before"] = list(proc.stack.top)
        ref = Ref({"p": proc}, "p")
        blk = Opaque(block_name)
        return lambda: it.run_fn(it.fns[fn[0]].parsed(), [ref, Ref({"b": blk}, "b"), Opaque("cb_table")] + list(extra_args))

    saved = interp.natives
    interp.natives = block_natives(state) + saved
    try:
        return interp.explore(make_run)
    finally:
        interp.natives = saved


def ops_executed(res):
    return [e for e in res.events if e[0] == "decoder" or e[0] == "child"]


def summarize(res):
    """(kind, error variant, children list, decoder events)"""
    kind, detail = classify(res)
    children = [e[1] for e in res.events if e[0] == "child"]
    dec = [e[1] for e in res.events if e[0] == "decoder"]
    return kind, getattr(detail, "variant", None) if kind == "err" else None, children, dec


def holds(res, cond):
    """does the path condition imply cond?"""
    s = z3.Solver()
    s.set("timeout", 20000)
    s.add(res.ctx.side)
    s.add(res.pc)
    s.add(z3.Not(cond))
    return s.check() == z3.unsat


def model_of(res, extra=()):
    s = z3.Solver()
    s.add(res.ctx.side)
    s.add(res.pc)
    s.add(list(extra))
    if s.check() == z3.sat:
        m = s.model()
        return {k: m.eval(v, model_completion=True).as_long() for k, v in res.ctx.atoms.items() if k.startswith(("c", "t$"))}
    return None


def check_split(interp, meta, V, cov):
    paths = run_block(interp, meta, "execute_split_block", "split")
    cov["paths"] += len(paths)
    for pi, res in enumerate(paths):
        kind, err, children, dec = summarize(res)
        cond = res.ctx.value(res.info["cond"].l)
        tag = f"split#p{pi}"
        if kind == "panic":
            V.add(tag, "inconclusive", detail=str(res.value))
            continue
        if children == ["split.on_true"]:
            ok = holds(res, cond == 1)
            V.add(f"{tag}: on_true runs only when the popped value is 1", "discharged" if ok else "inconclusive")
            V.add(f"{tag}: start_split before, end after", "discharged" if dec[:1] == ["start_split"] and (err or dec[-1] == "end_control_block") else "inconclusive", detail=str(dec))
        elif children == ["split.on_false"]:
            ok = holds(res, cond == 0)
            V.add(f"{tag}: on_false runs only when the popped value is 0", "discharged" if ok else "inconclusive")
        elif not children:
            if kind == "err" and err == "NotBinaryValue":
                ok = holds(res, z3.And(cond != 0, cond != 1))
                V.add(f"{tag}: NotBinaryValue only for a non-binary condition", "discharged" if ok else "inconclusive")
            elif kind == "err" and err == "CycleLimitExceeded":
                continue
            else:
                path = save_replay(PROP, f"split_{pi}", dict(kind="split", outcome=kind, err=err, model=model_of(res)))
                V.violation(tag, path, f"split block: path without child ends {kind}/{err}", key=f"split:nochild:{kind}:{err}")
        else:
            path = save_replay(PROP, f"split_{pi}", dict(kind="split", children=children))
            V.violation(tag, path, f"split block executed children {children}", key=f"split:children:{children}")
    # completeness: all three classes exist
    kinds = {tuple(summarize(r)[2]) for r in paths}
    V.add("split: paths for on_true, on_false and the error all exist", "discharged" if {("split.on_true",), ("split.on_false",), ()} <= kinds else "inconclusive", detail=str(kinds))


def check_loop(interp, meta, V, cov):
    paths = run_block(interp, meta, "execute_loop_block", "loop")
    cov["paths"] += len(paths)
    bad = []
    for pi, res in enumerate(paths):
        kind, err, children, dec = summarize(res)
        tag = f"loop#p{pi}"
        if kind == "panic":
            V.add(tag, "inconclusive", detail=str(res.value))
            continue
        ctx = res.ctx
        cond = ctx.value(res.info["cond"].l)
        tops = [ctx.value(t.l) for t in res.info.get("tops", [])]
        n = len(children)
        if kind == "err" and err in ("CycleLimitExceeded", "ChildError"):
            continue
        if n == 0:
            if kind == "ok":
                ok = holds(res, cond == 0)
                V.add(f"{tag}: loop skipped only when the popped value is 0", "discharged" if ok else "inconclusive")
            elif err == "NotBinaryValue":
                ok = holds(res, z3.And(cond != 0, cond != 1))
                V.add(f"{tag}: NotBinaryValue at entry only for a non-binary condition", "discharged" if ok else "inconclusive")
            else:
                bad.append((pi, res, f"no iteration, outcome {kind}/{err}"))
            continue
        # n >= 1 body executions: entered with 1, repeated while 1
        ok = holds(res, z3.And([cond == 1] + [t == 1 for t in tops[:n - 1]]))
        if ok:
            V.add(f"{tag}: {n} iteration(s) only if the condition was 1 before each", "discharged")
        else:
            vals = values_of(res, [z3.Not(z3.And([cond == 1] + [t == 1 for t in tops[:n - 1]]))])
            if vals is None or not replay_loop_sequence(vals, V, f"{tag}:iterations", f"body executed {n} time(s) with condition values {vals}"):
                pass
            continue
        last = tops[n - 1]
        if kind == "ok":
            if holds(res, last == 0):
                V.add(f"{tag}: exit after {n} iteration(s) only with a popped 0", "discharged")
            else:
                bad.append((pi, res, f"loop exits successfully after {n} iteration(s) although the value on top is not 0", last))
        elif err == "NotBinaryValue":
            ok = holds(res, z3.And(last != 0, last != 1))
            V.add(f"{tag}: NotBinaryValue after {n} iteration(s) only for a non-binary value", "discharged" if ok else "inconclusive")
        else:
            bad.append((pi, res, f"outcome {kind}/{err} after {n} iterations"))
    for item in bad:
        pi, res, text = item[0], item[1], item[2]
        extra = []
        if len(item) > 3:
            extra = [item[3] != 0, item[3] != 1]
        vals = values_of(res, extra)
        cov["candidates"].append((pi, text, vals))
    return paths


def native_run(jobs):
    binp = build_engine("replay", release=True)
    d = os.path.join(WORK, "replay")
    os.makedirs(d, exist_ok=True)
    jf, of = os.path.join(d, "c06b.in.json"), os.path.join(d, "c06b.out.json")
    json.dump({"jobs": jobs}, open(jf, "w"))
    run([binp, jf, of], timeout=600)
    return json.load(open(of))["results"]


def loop_reference(seq):
    """documented semantics for the successive condition values seq[0] (at entry), seq[1] (after the
    first iteration) ...: 'ok' with the number of iterations, or 'error'"""
    it = 0
    for v in seq:
        if v == 1:
            it += 1
            continue
        return ("ok", it) if v == 0 else ("error", it)
    return ("running", it)


def replay_loop_sequence(seq, V, name, text):
    """run `while.true` natively with an (empty-effect) body so that the successive condition values
    are exactly seq, and compare with the documented semantics"""
    seq = list(seq)
    ref = loop_reference(seq)
    if ref[0] == "running":
        seq.append(0)
        ref = loop_reference(seq)
    src = "begin " + " ".join(f"push.{v}" for v in reversed(seq)) + " while.true push.0 drop end end"
    nat = native_run([{"kind": "exec_masm", "source": src, "stack": [], "max_cycles": 4096}])[0]
    got = "ok" if nat["status"] == "ok" else "error"
    rep = dict(kind="exec_masm", property=PROP, source=src, native=nat, reference=ref, solver_path=text, max_cycles=4096)
    path = save_replay(PROP, re.sub(r"[^A-Za-z0-9_]", "_", name)[:50], rep)
    if got != ref[0]:
        V.violation(name, path, f"{text}: natively `{src}` ends {got} ({nat.get('error', nat.get('stack', ''))!s:.80}) but the documented semantics give {ref[0]}",
                    key="loop:" + ("accepts-non-binary" if ref[0] == "error" else "rejects-valid"))
        return True
    V.add(name, "inconclusive", detail=f"{text}; native run of `{src}` agrees with the reference ({got}) - solver path did not reproduce")
    return False


def values_of(res, extra=()):
    """concrete (cond, tops...) of a path from a solver model"""
    s = z3.Solver()
    s.add(res.ctx.side)
    s.add(res.pc)
    s.add(list(extra))
    if s.check() != z3.sat:
        return None
    m = s.model()
    ctx = res.ctx
    vals = [m.eval(ctx.value(res.info["cond"].l), model_completion=True).as_long()]
    for t in res.info.get("tops", []):
        vals.append(m.eval(ctx.value(t.l), model_completion=True).as_long())
    return vals


def native_loop_replay(V, cov):
    """confirm on the real VM: a while loop whose body leaves a non-binary value must fail"""
    binp = build_engine("replay", release=True)
    d = os.path.join(WORK, "replay")
    os.makedirs(d, exist_ok=True)
    jf, of = os.path.join(d, "c06.in.json"), os.path.join(d, "c06.out.json")
    jobs = [{"kind": "exec_masm", "source": "begin push.0 push.2 push.1 while.true push.0 drop end end", "stack": [], "max_cycles": 4096},
            {"kind": "exec_masm", "source": "begin push.1 while.true push.0 end end", "stack": [], "max_cycles": 4096},
            {"kind": "exec_masm", "source": "begin push.2 while.true push.0 end end", "stack": [], "max_cycles": 4096},
            {"kind": "exec_masm", "source": "begin push.2 if.true push.3 else push.4 end end", "stack": [], "max_cycles": 4096}]
    json.dump({"jobs": jobs}, open(jf, "w"))
    run([binp, jf, of], timeout=600)
    return json.load(open(of))["results"], jobs


def check_join(interp, meta, V, cov):
    paths = run_block(interp, meta, "execute_join_block", "join")
    cov["paths"] += len(paths)
    seen_full = False
    for pi, res in enumerate(paths):
        kind, err, children, dec = summarize(res)
        tag = f"join#p{pi}"
        if kind == "panic":
            V.add(tag, "inconclusive", detail=str(res.value))
            continue
        if kind == "err" and err == "CycleLimitExceeded":
            continue
        ok_order = children == ["join.first", "join.second"][:len(children)]
        if not ok_order or (kind == "ok" and len(children) != 2):
            path = save_replay(PROP, f"join_{pi}", dict(kind="join", children=children, outcome=kind))
            V.violation(tag, path, f"join block executed children {children} (outcome {kind}/{err})", key=f"join:children:{children}")
            continue
        if kind == "ok":
            seen_full = True
            V.add(f"{tag}: first then second, each exactly once, between start_join and the END row",
                  "discharged" if dec[:1] == ["start_join"] and dec[-1] == "end_control_block" else "inconclusive", detail=str(dec))
        else:
            V.add(f"{tag}: a failing child stops the block ({len(children)} child(ren) run, error {err} propagated)", "discharged" if err == "ChildError" else "inconclusive", detail=str(err))
    V.add("join: a path executing both children exists", "discharged" if seen_full else "inconclusive")


def check_dyn(interp, meta, V, cov):
    """dyn: the callee is looked up by the word on top of the stack, in the order (s3, s2, s1, s0) the block hash table
    and the hasher use; an unknown hash is an error before anything is executed"""
    state = {}

    def n_cb_get(it, a, d, m):
        key = pm.deref(a[1])
        it.info["lookup_key"] = key
        if it.decide(z3.Bool("callee_known")):
            return En("Some", [Ref({"b": Opaque("dyn.callee")}, "b")], ty="Option")
        return En("None", [], ty="Option")

    def n_ok_or_else(it, a, d, m):
        o = pm.deref(a[0])
        if o.variant == "Some":
            return En("Ok", [o.fields[0]], ty="Result")
        return En("Err", [En("DynamicCodeBlockNotFound", [it.info.get("lookup_key")], ty="ExecutionError")], ty="Result")

    extra = [(re.compile(r"(?:\w+::)*CodeBlockTable::get"), n_cb_get),
             (re.compile(r"Option::<&CodeBlock>::ok_or_else::<ExecutionError, .*>"), n_ok_or_else),
             (re.compile(r"<\[Felt; 4\] as Into<RpoDigest>>::into|<RpoDigest as From<\[Felt; 4\]>>::from"), pm.n_identity),
             (re.compile(r"Decoder::start_dyn"), lambda it, a, d, m: (it.events.append(("decoder", "start_dyn", [pm.deref(x) for x in a[1:]])), UNIT)[1])]
    saved = interp.natives
    interp.natives = extra + saved
    try:
        paths = run_block(interp, meta, "execute_dyn_block", "dyn")
    finally:
        interp.natives = saved
    cov["paths"] += len(paths)
    ran = False
    for pi, res in enumerate(paths):
        kind, err, children, dec = summarize(res)
        tag = f"dyn#p{pi}"
        if kind == "panic":
            V.add(tag, "inconclusive", detail=str(res.value))
            continue
        if kind == "err" and err == "CycleLimitExceeded":
            continue
        key = res.info.get("lookup_key")
        top = res.info.get("top_before") or []
        if key is not None and len(top) >= 4:
            ctx = res.ctx
            want = [top[3], top[2], top[1], top[0]]
            same = all(ctx.eq(pm.deref(k).l, w.l) is not None and holds(res, ctx.eq(pm.deref(k).l, w.l)) for k, w in zip(key, want))
            V.add(f"{tag}: the callee is looked up by the word (s3, s2, s1, s0) on top of the stack", "discharged" if same else "inconclusive")
        if children == ["dyn.callee"]:
            ran = True
            V.add(f"{tag}: the callee runs exactly once, only when the hash is known", "discharged" if holds(res, z3.Bool("callee_known")) else "inconclusive")
        elif not children:
            if kind == "err" and err == "DynamicCodeBlockNotFound":
                V.add(f"{tag}: an unknown hash is an error and nothing is executed", "discharged" if holds(res, z3.Not(z3.Bool("callee_known"))) else "inconclusive")
            else:
                path = save_replay(PROP, f"dyn_{pi}", dict(kind="dyn", outcome=kind, err=err))
                V.violation(tag, path, f"dyn block: path without a child ends {kind}/{err}", key=f"dyn:nochild:{kind}:{err}")
        else:
            path = save_replay(PROP, f"dyn_{pi}", dict(kind="dyn", children=children))
            V.violation(tag, path, f"dyn block executed children {children}", key=f"dyn:children:{children}")
    V.add("dyn: a path executing the callee exists", "discharged" if ran else "inconclusive")


def main():
    t0 = time.time()
    V = Verdict(PROP)
    meta = airq.get_meta()
    interp = opsum.make_interp(max_paths=512)
    cov = dict(paths=0, candidates=[])
    try:
        check_split(interp, meta, V, cov)
        check_loop(interp, meta, V, cov)
        check_join(interp, meta, V, cov)
        check_dyn(interp, meta, V, cov)
    except Unsupported as e:
        V.add("block-executors", "inconclusive", detail=f"MIR construct outside the interpreter's subset: {e}")
    nat, jobs = native_loop_replay(V, cov)
    cov["native"] = len(nat)
    if nat[0]["status"] == "ok":
        path = save_replay(PROP, "loop_fixed_program", dict(kind="exec_masm", source=jobs[0]["source"], native=nat[0]))
        V.violation("native: non-binary value after a loop iteration", path, f"`{jobs[0]['source']}` executes successfully", key="loop:accepts-non-binary")
    # native sanity of the semantics the solver side relies on
    V.add("native: binary loop exit succeeds", "discharged" if nat[1]["status"] == "ok" else "inconclusive", detail=str(nat[1])[:100])
    V.add("native: non-binary loop entry fails", "discharged" if nat[2]["status"] == "error" else "inconclusive", detail=str(nat[2])[:100])
    V.add("native: non-binary if condition fails", "discharged" if nat[3]["status"] == "error" else "inconclusive", detail=str(nat[3])[:100])
    done = False
    for pi, text, vals in cov["candidates"]:
        if vals is None or done:
            continue
        done = replay_loop_sequence(vals, V, f"loop#p{pi}:exit", text)
    V.add("native: non-binary value after a loop iteration fails", "discharged" if nat[0]["status"] == "error" else "inconclusive", detail=str(nat[0])[:100])
    c = V.counts()
    coverage = dict(
        states=cov["paths"], transitions=c.get("discharged", 0), traces_validated_against_impl=cov["native"],
        samples=[o for o in V.obligations if o["status"] != "discharged"][:5] + V.obligations[:5],
        obligations=len(V.obligations), discharged=c.get("discharged", 0),
        functions_encoded=["Process::execute_split_block, execute_loop_block, execute_join_block, execute_dyn_block (MIR)", "decoder::<impl Process>::start_split_block/end_split_block/start_loop_block/end_loop_block (MIR)",
                           "Process::execute_op for the Drop/Noop rows of block starts and ends (MIR)"],
        bounds=f"loop unrolled to {MAX_ITER} body executions (then cut by assuming the top is not 1); children are opaque (any effect on the stack top, may fail)",
        not_covered="repeat.n unrolling and exec inlining in the assembler (compile_body / combine_blocks): string/BTreeMap state outside both engines",
        sources_fingerprint=repo_fingerprint(["processor/src/lib.rs", "processor/src/decoder/mod.rs"]),
        evaluations=len(V.obligations), distinct_nontrivial=c.get("discharged", 0), rule="one obligation per path class of each block executor",
    )
    write_evidence(PROP, "model_checking", coverage, ["children of a block are arbitrary (havoc of the stack top)", "z3"], time.time() - t0, violations=len(V.violations))
    V.finish()


if __name__ == "__main__":
    main()
