"""C19 / C10 (fixed-layout statement types) — decoders of untrusted bytes.
Engine C on the MIR of miden-core: StackInputs / StackOutputs / Kernel / ProgramInfo ::read_from are
executed on a buffer of L arbitrary (symbolic) bytes, one obligation set per L.  Decided:
  - no reachable panic in the decoder;
  - an accepted value re-serialises (real write_into, MIR) to exactly the consumed prefix, hence
    decodes to an equal value (canonical encoding);
  - an accepted StackOutputs satisfies the validity invariant of StackOutputs::new (at least 16
    elements, canonical field elements, overflow-address count) - without it the functions the
    verifier calls on the decoded outputs (stack_top, overflow_prev, get_stack_item) panic.
Counterexample bytes are replayed through the native decoders (and the verifier-side accessors)."""
import os
import re
import sys
import time

import z3

sys.path.insert(0, os.path.join(os.path.dirname(os.path.abspath(__file__)), "..", "lib"))
import masmsym  # noqa: E402
import mir_parse as mp  # noqa: E402
import mirsym  # noqa: E402
import opsum  # noqa: E402
import procmodel as pm  # noqa: E402
from common import REPO, Verdict, log, repo_fingerprint, save_replay, seed, tier, write_evidence  # noqa: E402
from field import P, Lin  # noqa: E402
from mir_parse import Unsupported  # noqa: E402
from mirsym import En, F, I, Opaque, Ref, Struct, UNIT  # noqa: E402

PROP = "C19"


class Reader:
    """byte stream as a sequence of little-endian chunks.  Reading n bytes of the untrusted buffer
    yields a fresh integer in [0, 256^n) (bytes <-> integers is a bijection, so the chunk values are
    the symbolic inputs and no byte arithmetic reaches the solver); re-reading a written stream returns
    the written values chunk by chunk."""

    def __init__(self, length=None, chunks=None):
        self.length, self.pos = length, 0
        self.chunks = chunks  # for written streams: list of (n, value)
        self.read_log = []  # (pos, n, z3 var) for the untrusted buffer
        self.ci = 0
        self.bytes = None  # byte-level view of the rest of a written stream (only after a chunking mismatch)

    def left(self):
        return len(self.bytes) if self.bytes is not None else len(self.chunks) - self.ci


def eof():
    return En("Err", [En("UnexpectedEOF", [], ty="DeserializationError")], ty="Result")


def rd_int(it, r, n, ty):
    if r.chunks is not None:
        if r.bytes is None and r.ci >= len(r.chunks):
            return None
        if r.bytes is None and r.chunks[r.ci][0] == n:
            val = r.chunks[r.ci][1]
            r.ci += 1
            r.pos += n
            return I(val, ty)
        # the reader cuts the written stream differently from the writer: continue byte by byte
        if r.bytes is None:
            r.bytes = []
            for cn, val in r.chunks[r.ci:]:
                for i in range(cn):
                    r.bytes.append((val >> (8 * i)) & 255 if isinstance(val, int) else (val / (256 ** i)) % 256)
            r.ci = len(r.chunks)
        if len(r.bytes) < n:
            return None
        bs, r.bytes = r.bytes[:n], r.bytes[n:]
        r.pos += n
        if all(isinstance(b, int) for b in bs):
            return I(sum(b << (8 * i) for i, b in enumerate(bs)), ty)
        return I(z3.Sum([b * (256 ** i) for i, b in enumerate(bs)]), ty)
    if r.pos + n > r.length:
        return None
    v = z3.Int(f"in{r.pos}_{n}")
    it.assume(z3.And(v >= 0, v <= 256**n - 1))
    r.read_log.append((r.pos, n, v))
    r.pos += n
    return I(v, ty)


def read_felt(it, r):
    x = rd_int(it, r, 8, "u64")
    if x is None:
        return eof()
    # winter-math Felt::read_from: values >= modulus are rejected (DeserializationError::InvalidValue)
    if it.decide(x.v >= P if mirsym.is_sym(x.v) else x.v >= P):
        return En("Err", [En("InvalidValue", [], ty="DeserializationError")], ty="Result")
    return En("Ok", [pm.felt_from_int(it, x)], ty="Result")


def read_digest(it, r):
    out = []
    for _ in range(4):
        e = read_felt(it, r)
        if e.variant == "Err":
            return e
        out.append(e.fields[0])
    return En("Ok", [out], ty="Result")


def natives(interp_ref):
    def n_read_int(it, a, d, m):
        r = pm.deref(a[0])
        n = {"u8": 1, "u16": 2, "u32": 4, "u64": 8}[m.group(1)]
        v = rd_int(it, r, n, m.group(1))
        return eof() if v is None else En("Ok", [v], ty="Result")

    def n_read_many(it, a, d, m):
        r = pm.deref(a[0])
        n = a[1]
        kind = m.group(1) or m.group(2)
        out = []
        i = 0
        while True:
            more = (i < n.v) if mirsym.is_sym(n.v) else (i < n.v)
            if not it.decide(more):
                return En("Ok", [out], ty="Result")
            if kind == "Felt":
                e = read_felt(it, r)
            elif kind == "u64":
                x = rd_int(it, r, 8, "u64")
                e = eof() if x is None else En("Ok", [x], ty="Result")
            elif kind == "RpoDigest":
                e = read_digest(it, r)
            else:
                raise Unsupported(f"read_many::<{kind}>")
            if e.variant == "Err":
                return e
            out.append(e.fields[0])
            i += 1

    def n_read_t(it, a, d, m):
        r = pm.deref(a[0])
        t = m.group(1)
        if t == "RpoDigest":
            return read_digest(it, r)
        if t == "Kernel":
            fn = [n for n in it.fns if n.endswith("::read_from") and "core/src/program/mod.rs" in n]
            return it.run_fn(it.fns[fn[0]].parsed(), [a[0]])
        raise Unsupported(f"read::<{t}>")

    def wr_int(w, v, n):
        w.append((n, v.v))

    def n_write_int(it, a, d, m):
        wr_int(pm.deref(a[0]), a[1], {"u8": 1, "u16": 2, "u32": 4, "u64": 8}[m.group(1)])
        return UNIT

    def wr_elem(it, w, e):
        e = pm.deref(e)
        if isinstance(e, F):
            wr_int(w, I(it.ctx.value(e.l) if not e.l.is_const() else e.l.const, "u64"), 8)
        elif isinstance(e, I):
            wr_int(w, e, 8)
        elif isinstance(e, list):
            for x in e:
                wr_elem(it, w, x)
        else:
            raise Unsupported(f"write of {e!r}")

    def n_write_many(it, a, d, m):
        w = pm.deref(a[0])
        for e in pm.deref(a[1]):
            wr_elem(it, w, e)
        return UNIT

    def n_write_digest(it, a, d, m):
        wr_elem(it, pm.deref(a[1]), pm.deref(a[0]))
        return UNIT

    def n_write_kernel(it, a, d, m):
        fn = [n for n in it.fns if n.endswith("::write_into") and "core/src/program/mod.rs" in n]
        return it.run_fn(it.fns[fn[0]].parsed(), [a[0], a[1]])

    class SliceIter:
        def __init__(self, lst):
            self.lst, self.i = lst, 0

    def n_iter_next(it, a, d, m):
        si = pm.deref(a[0])
        if si.i < len(si.lst):
            si.i += 1
            return En("Some", [Ref(si.lst, si.i - 1)], ty="Option")
        return En("None", [], ty="Option")

    def n_resize(it, a, d, m):
        v = pm.deref(a[0])
        n = a[1].v
        while len(v) < n:
            v.append(a[2])
        del v[n:]
        return UNIT

    def n_index_range(it, a, d, m):
        """v[..e], v[s..], v[s..e] on a list of concrete length with concrete bounds (bounds are list
        lengths on every path here); out-of-range bounds panic like the real slice index"""
        lst = pm.deref(a[0])
        r = pm.deref(a[1])
        kind = m.group(1) or m.group(2)
        def conc(x):
            v = x.v if isinstance(x, I) else x
            if not isinstance(v, int):
                raise Unsupported("slice with a symbolic bound")
            return v
        fields = [r[i] for i in range(2) if i in r] if isinstance(r, Struct) else list(getattr(r, "fields", []))
        if kind == "RangeTo":
            lo, hi = 0, conc(fields[0])
        elif kind == "RangeFrom":
            lo, hi = conc(fields[0]), len(lst)
        else:
            lo, hi = conc(fields[0]), conc(fields[1])
        if lo > hi or hi > len(lst):
            raise mirsym.Panic(f"slice index {lo}..{hi} out of range for length {len(lst)}", kind="panic")
        return lst[lo:hi]

    def closure_fn(it, span):
        c = [n for n, f in it.fns.items() if "{closure#" in n and f.args and span in f.args[0][1]]
        if len(c) != 1:
            raise Unsupported(f"closure {span} not found uniquely: {c}")
        return it.fns[c[0]].parsed()

    def n_iter_search(it, a, d, m):
        """position / rposition / any / all / find over a slice iterator with the real closure body"""
        kind, span = m.group(1), m.group(2)
        si = pm.deref(a[0])
        fn = closure_fn(it, "{closure@" + span + "}")
        idxs = list(range(si.i, len(si.lst)))
        if kind == "rposition":
            idxs.reverse()
        for j in idxs:
            r = it.run_fn(fn, [Ref({"c": a[1]}, "c"), Ref(si.lst, j)])
            hit = it.decide(r) if not isinstance(r, bool) else r
            if kind == "all":
                if not hit:
                    return False
                continue
            if hit:
                if kind == "any":
                    return True
                if kind == "find":
                    si.i = j + 1
                    return En("Some", [Ref(si.lst, j)], ty="Option")
                return En("Some", [I(j - si.i if kind == "position" else j - si.i, "usize")], ty="Option")
        if kind == "all":
            return True
        if kind == "any":
            return False
        return En("None", [], ty="Option")

    def n_option_map(it, a, d, m):
        kind, span = m.group(1), m.group(2)
        o = pm.deref(a[0])
        fn = closure_fn(it, "{closure@" + span + "}")
        clo = a[-1]
        first_ty = fn.args[0][1]
        carg = clo if not first_ty.startswith("&") else Ref({"c": clo}, "c")
        if o.variant == "Some":
            r = it.run_fn(fn, [carg, o.fields[0]])
            return r if kind == "map_or" else En("Some", [r], ty="Option")
        return a[1] if kind == "map_or" else En("None", [], ty="Option")

    def n_format(it, a, d, m):
        return Opaque("string")

    return [
        (re.compile(r"<(?:std::vec::)?Vec<.*> as Deref>::deref|<(?:std::vec::)?Vec<.*> as DerefMut>::deref_mut"), pm.n_identity),
        (re.compile(r"<&\[.*\] as IntoIterator>::into_iter|core::slice::<impl \[.*\]>::iter"), lambda it, a, d, m: SliceIter(pm.deref(a[0]))),
        (re.compile(r"<std::slice::Iter<'_, .*> as Iterator>::next"), n_iter_next),
        (re.compile(r"(?:std::vec::)?Vec::<.*>::resize"), n_resize),
        (re.compile(r"Option::<.*>::(map_or|map)::<(?:.*, )?\{closure@([^}]*)\}>"), n_option_map),
        (re.compile(r"<std::slice::Iter<'_, .*> as Iterator>::(position|rposition|any|all|find)::<(?:.*, )?\{closure@([^}]*)\}>"), n_iter_search),
        (re.compile(r"<(?:std::vec::)?Vec<.*> as Index<(?:std::ops::)?(RangeTo|RangeFrom|Range)<usize>>>::index|core::slice::index::<impl Index<(?:std::ops::)?(RangeTo|RangeFrom|Range)<usize>> for \[.*\]>::index"), n_index_range),
        (re.compile(r"format|alloc::fmt::format|std::fmt::format|<.* as ToString>::to_string"), n_format),
        (re.compile(r"Result::<StackOutputs, OutputError>::map_err::<DeserializationError, .*>"),
         lambda it, a, d, m: a[0] if pm.deref(a[0]).variant == "Ok" else En("Err", [En("InvalidValue", [], ty="DeserializationError")], ty="Result")),
        (re.compile(r"<R as ByteReader>::read_(u8|u16|u32|u64)"), n_read_int),
        (re.compile(r"<R as ByteReader>::read_many::<(\w+)>"), n_read_many),
        (re.compile(r"<R as ByteReader>::read::<(\w+)>"), n_read_t),
        (re.compile(r"<W as ByteWriter>::write_(u8|u16|u32|u64)"), n_write_int),
        (re.compile(r"<W as ByteWriter>::write_many::<.*>"), n_write_many),
        (re.compile(r"<RpoDigest as Serializable>::write_into::<W>"), n_write_digest),
        (re.compile(r"<Kernel as Serializable>::write_into::<W>"), n_write_kernel),
        (re.compile(r"(?:std::vec::)?Vec::<.*>::len"), lambda it, a, d, m: I(len(pm.deref(a[0])), "usize")),
        (re.compile(r"<u16 as Into<usize>>::into|<u32 as Into<usize>>::into"), lambda it, a, d, m: I(a[0].v, "usize")),
        (re.compile(r"<u32 as TryInto<usize>>::try_into|<u16 as TryInto<usize>>::try_into"), lambda it, a, d, m: En("Ok", [I(a[0].v, "usize")], ty="Result")),
    ] + pm.NATIVES


TYPES = {
    # type -> (source file fragment, lengths quick, lengths thorough)
    "StackInputs": ("core/src/stack/inputs.rs", [0, 3, 4, 11, 12, 20, 140], [0, 1, 2, 3, 4, 5, 11, 12, 13, 20, 28, 36, 132, 140, 148]),
    "StackOutputs": ("core/src/stack/outputs.rs", [0, 4, 8, 16, 24, 136, 160], [0, 3, 4, 7, 8, 12, 16, 24, 32, 40, 135, 136, 144, 152, 160, 168, 176]),
    "Kernel": ("core/src/program/mod.rs", [0, 1, 2, 34], [0, 1, 2, 33, 34, 66]),
    "ProgramInfo": ("core/src/program/info.rs", [31, 32, 34, 66], [0, 31, 32, 33, 34, 66, 98]),
}


def run_decoder(interp, ty, L):
    frag = TYPES[ty][0]
    rf = [n for n in interp.fns if n.endswith("::read_from") and frag in n]
    wf = [n for n in interp.fns if n.endswith("::write_into") and frag in n]
    if len(rf) != 1 or len(wf) != 1:
        raise Unsupported(f"{ty}: read_from/write_into not found uniquely ({rf}, {wf})")

    def make_run(it):
        it.begin_run(None)
        r = Reader(length=L)
        it.info.update(reader=r)

        def thunk():
            res = it.run_fn(it.fns[rf[0]].parsed(), [Ref({"r": r}, "r")])
            it.info["consumed"] = r.pos
            if isinstance(res, En) and res.variant == "Ok":
                w = []
                it.run_fn(it.fns[wf[0]].parsed(), [Ref({"v": res.fields[0]}, "v"), Ref({"w": w}, "w")])
                it.info["written"] = w
                r2 = Reader(chunks=list(w))
                it.info["reread"] = it.run_fn(it.fns[rf[0]].parsed(), [Ref({"r": r2}, "r")])
                it.info["reread_left"] = r2.left()
            return res
        return thunk

    return interp.explore(make_run)


def getfield(st, name, order):
    return st[name] if name in st else st[order.index(name)]


def check_type(interp, ty, L, V, cov):
    try:
        paths = run_decoder(interp, ty, L)
    except Unsupported as e:
        V.add(f"{ty}[L={L}]", "inconclusive", detail=f"outside the interpreter's subset: {e}")
        return
    cov["paths"] += len(paths)
    n_ok = 0
    for pi, res in enumerate(paths):
        tag = f"{ty}[L={L}]#p{pi}"
        solver = z3.Solver()
        solver.set("timeout", int(os.environ.get("VERIF_C19_TIMEOUT_MS", "10000")))
        solver.add(res.ctx.side)
        solver.add(res.pc)
        cov["queries"] += 1
        r0 = solver.check()
        if r0 == z3.unknown:
            import bvquery
            st0, _ = bvquery.check_bv(list(solver.assertions()), timeout_ms=60000, width=96)
            if st0 == "unsat":
                continue
        elif r0 != z3.sat:
            continue
        if res.outcome != "ok":
            bytes_ = model_bytes(solver, L, res.info["reader"])
            confirm(ty, bytes_, f"{tag}: decoder panics ({res.value})", V, cov, expect="no-panic")
            continue
        V.add(f"{tag}: no panic", "discharged")
        val = res.value
        if not (isinstance(val, En) and val.variant == "Ok"):
            continue
        n_ok += 1
        w, used = res.info["written"], res.info["consumed"]
        # the property: the accepted value re-serialises to bytes that decode to an equal value
        v2 = res.info.get("reread")
        if not (isinstance(v2, En) and v2.variant == "Ok") or res.info.get("reread_left", 1) != 0:
            post = z3.BoolVal(False)
        else:
            post = z3.And(equal_values(res.ctx, val.fields[0], v2.fields[0]))
        decide(solver, post, L, ty, f"{tag}: accepted value re-encodes ({sum(n for n, _ in w)} bytes) to bytes that decode to an equal value", V, cov, "roundtrip", res.info["reader"])
        if ty == "StackOutputs":
            order = opsum.struct_fields(os.path.join(REPO, "core/src/stack/outputs.rs"), "StackOutputs")
            st = val.fields[0]
            stack, addrs = getfield(st, "stack", order), getfield(st, "overflow_addrs", order)
            want_addrs = len(stack) - 16 + 1 if len(stack) > 16 else 0
            inv = z3.And([z3.BoolVal(len(stack) >= 16), z3.BoolVal(len(addrs) == want_addrs)]
                         + [(x.v if not isinstance(x.v, int) else z3.IntVal(x.v)) < P for x in list(stack) + list(addrs)])
            decide(solver, inv, L, ty, f"{tag}: accepted outputs satisfy the invariant of StackOutputs::new ({len(stack)} elements, {len(addrs)} addresses)", V, cov, "usable", res.info["reader"])
    cov["accepted_paths"] += n_ok


def equal_values(ctx, a, b):
    """structural equality of two decoded values as a list of z3 Bools"""
    if isinstance(a, F) and isinstance(b, F):
        return [ctx.eq(a.l, b.l)]
    if isinstance(a, I) and isinstance(b, I):
        return [(a.v if not isinstance(a.v, int) else z3.IntVal(a.v)) == (b.v if not isinstance(b.v, int) else z3.IntVal(b.v))]
    if isinstance(a, list) and isinstance(b, list):
        if len(a) != len(b):
            return [z3.BoolVal(False)]
        out = []
        for x, y in zip(a, b):
            out += equal_values(ctx, x, y)
        return out
    if isinstance(a, Struct) and isinstance(b, Struct):
        out = []
        for k in a:
            if isinstance(k, int):
                out += equal_values(ctx, a[k], b[k])
        return out
    if isinstance(a, Struct) and isinstance(b, En):  # tuple struct built by its constructor
        return [c for i, y in enumerate(b.fields) for c in equal_values(ctx, a[i], y)]
    if isinstance(a, En) and isinstance(b, Struct):
        return equal_values(ctx, b, a)
    if isinstance(a, En) and isinstance(b, En):
        return [z3.BoolVal(a.variant == b.variant)] + [c for x, y in zip(a.fields, b.fields) for c in equal_values(ctx, x, y)]
    return [z3.BoolVal(False)]


def model_bytes(solver, L, reader=None):
    """concrete buffer from a model: chunk values written little-endian at their positions, unread bytes 0"""
    m = solver.model()
    out = [0] * L
    for pos, n, v in (reader.read_log if reader is not None else []):
        x = m.eval(v, model_completion=True).as_long()
        for i in range(n):
            out[pos + i] = (x >> (8 * i)) & 255
    return out


def decide(solver, post, L, ty, name, V, cov, expect, reader=None):
    solver.push()
    solver.add(z3.Not(post))
    r = solver.check()
    cov["queries"] += 1
    if r == z3.unknown:
        # byte (de)composition is division / remainder by powers of 256: exact and cheap as bit-vectors
        import bvquery
        st, info = bvquery.check_bv(list(solver.assertions()), timeout_ms=120000, width=96)
        if st == "unsat":
            r = z3.unsat
    if r == z3.unsat:
        V.add(name, "discharged")
    elif r == z3.sat:
        confirm(ty, model_bytes(solver, L, reader), name, V, cov, expect)
    else:
        V.add(name, "inconclusive", detail="solver unknown")
    solver.pop()


def confirm(ty, bytes_, name, V, cov, expect):
    nat = masmsym.native([{"kind": "decode", "type": ty, "bytes": bytes_}], "c19")[0]
    rep = dict(kind="decode", property=PROP, type=ty, bytes=bytes_, native=nat, obligation=name)
    path = save_replay(PROP, re.sub(r"[^A-Za-z0-9_]", "_", name)[:70], rep)
    cov["native_validated"] += 1
    bad = False
    if nat["status"] == "panic":
        bad = True
        text = "the native decoder / verifier-side accessors panic"
    elif expect == "roundtrip" and nat["status"] == "ok":
        nat2 = masmsym.native([{"kind": "decode", "type": ty, "bytes": list(nat["reencoded"])}], "c19")[0]
        bad = nat2["status"] != "ok" or list(nat2["reencoded"]) != list(nat["reencoded"])
        text = f"accepted value re-encodes to {nat['reencoded']}, which decodes to {nat2}"
    elif expect == "usable" and nat["status"] == "ok" and nat.get("valid") is False:
        bad = True
        text = (f"accepted by the native decoder although the value violates the validity rule of StackOutputs::new "
                f"({nat.get('stack_len')} elements, {nat.get('addrs_len')} overflow addresses, all canonical field elements required)")
    else:
        text = ""
    if bad:
        V.violation(name, path, f"{ty}: bytes {bytes_}: {text}", key=f"{ty}:{expect}")
    else:
        V.add(name, "inconclusive", detail=f"solver counterexample {bytes_} did not reproduce natively: {nat}")


def main():
    t0 = time.time()
    V = Verdict(PROP)
    path = opsum.dump_mir("core")
    fns = mp.parse_functions(open(path).read())
    consts = pm.base_consts(REPO)
    consts.update({"stack::STACK_TOP_SIZE": I(16, "usize"), "StarkField::MODULUS": I(P, "u64"), "<Felt as StarkField>::MODULUS": I(P, "u64"), "<miden_crypto::Felt as miden_crypto::StarkField>::MODULUS": I(P, "u64"),
                   "stack::outputs::MAX_STACK_OUTPUTS_SIZE": I(65535, "usize"), "MAX_STACK_OUTPUTS_SIZE": I(65535, "usize")})
    interp = mirsym.Interp(fns, natives(None), consts, max_paths=4000)

    cov = dict(paths=0, queries=0, accepted_paths=0, native_validated=0)
    only = [a for a in sys.argv[1:] if not a.startswith("-")]
    for ty, (frag, lq, lt) in TYPES.items():
        if only and ty not in only:
            continue
        for L in (lt if tier() == "thorough" else lq):
            check_type(interp, ty, L, V, cov)
    if not only or "ints" in only:
        import c19_ints
        c19_ints.run(V, cov, fns, natives(None), consts)
    c = V.counts()
    coverage = dict(
        states=cov["paths"], transitions=c.get("discharged", 0), traces_validated_against_impl=cov["native_validated"],
        samples=V.obligations[:5] + [o for o in V.obligations if o["status"] != "discharged"][:5],
        obligations=len(V.obligations), discharged=c.get("discharged", 0), queries=cov["queries"], accepted_paths=cov["accepted_paths"],
        functions_encoded=["StackInputs/StackOutputs/Kernel/ProgramInfo ::read_from and ::write_into (MIR of miden-core)",
                           "StackInputs::try_from_values, StackOutputs::new + find_invalid_elements (MIR of miden-core), AdviceInputs::with_stack_values (MIR of miden-processor) on n symbolic u64 values: accepted <=> all canonical (+ overflow-address length rule), stored elements = given integers in the documented order"],
        modelled_natively=["winter-utils ByteReader/ByteWriter primitives (little-endian, EOF checks)", "Felt::read_from (rejects values >= p)", "RpoDigest = 4 field elements", "Felt::try_from(u64) (Err for values >= p)"],
        bounds="buffers of the listed concrete lengths with arbitrary byte contents; element counts symbolic (bounded by the buffer)",
        not_covered="ExecutionProof / StarkProof (winterfell), AST / library decoders of miden-assembly (strings, maps, unbounded recursion), allocation of attacker-chosen capacities (Vec::with_capacity(count))",
        sources_fingerprint=repo_fingerprint(["core/src/stack", "core/src/program/info.rs", "core/src/program/mod.rs"]),
        evaluations=len(V.obligations), distinct_nontrivial=c.get("discharged", 0), rule="one obligation per (type, buffer length, path, fact)",
    )
    write_evidence(PROP, "model_checking", coverage, ["models of the winter-utils reader/writer primitives and of Felt/RpoDigest decoding"], time.time() - t0, violations=len(V.violations))
    V.finish()


if __name__ == "__main__":
    main()
