"""C13 (partial) — inside a span, the decoded operation stream is exactly the span's operations.
Engine C over the MIR of miden-core AND miden-processor, composed: n operations with SYMBOLIC opcodes
(and, at the listed positions, a symbolic "carries an immediate" flag) are batched by the real
`batch_ops` / `OpBatchAccumulator` (core) and the resulting span is executed by the real
`Process::execute_span_block` / `execute_op_batch` with the real `Decoder::{start_span, respan,
start_op_group, execute_user_op, end_span}` and `remove_opcode_from_group` (processor).  Per path z3
decides:
  D1 no panic; SPAN, every RESPAN and END each execute exactly one NOOP row;
  D2 the user operations executed, with the inserted NOOPs removed, are exactly the span's operations in
     order, each decoded (execute_user_op) immediately before it is executed;
  D3 a NOOP is inserted only (a) right after an immediate-carrying operation that ends its group, or
     (b) as the single operation of a padding group whose group value is 0;
  D4 decode consistency: at every decoded operation the low 7 bits of the current group value are that
     operation's opcode (so the opcode the AIR would read from the group is the operation executed),
     and op_idx counts 0,1,2.. within the group (never above 8);
  D5 whenever the decoder moves to the next group / batch / END, the current group value is 0;
  D6 the group counter is decremented once per group and per immediate, never below zero on the
     way, and is 0 at END;
  D7 the operation handed to the debug information (what VmStateIterator reports per clock cycle) is
     the operation of the decoder row appended at the same time: SPAN, each operation, RESPAN, END.
Bounds: span sizes and flag positions as listed in the evidence; everything else symbolic."""
import os
import re
import sys
import time

import z3

sys.path.insert(0, os.path.dirname(os.path.abspath(__file__)))
import c08  # noqa: E402
from procops import airq, mirsym, opsum, pm  # noqa: E402
import mir_parse as mp  # noqa: E402
from common import REPO, Verdict, log, repo_fingerprint, save_replay, seed, tier, write_evidence  # noqa: E402
from field import P, Lin  # noqa: E402
from mir_parse import Unsupported  # noqa: E402
from mirsym import En, F, I, Opaque, Ref, Struct, UNIT  # noqa: E402

PROP = "C13"
NOOP = En("Noop", [], ty="miden_core::Operation")


class Op:
    def __init__(self, it, i, imm_mode):
        """imm_mode: False (no immediate), True (immediate), 'sym' (symbolic flag)"""
        self.i = i
        self.opcode = z3.Int(f"opc{i}")
        it.assume(z3.And(self.opcode >= 0, self.opcode < 128))
        self.has_imm = z3.Bool(f"imm{i}") if imm_mode == "sym" else bool(imm_mode)
        self.imm = F(it.ctx.var(f"immv{i}"))

    def __repr__(self):
        return f"Op{self.i}"


def is_noop(x):
    return isinstance(x, En) and x.variant == "Noop"


def natives():
    def imm_value(it, a, d, m):
        op = pm.deref(a[0])
        if is_noop(op):
            return En("None", [], ty="Option")
        if it.decide(op.has_imm):
            return En("Some", [op.imm], ty="Option")
        return En("None", [], ty="Option")

    def op_code(it, a, d, m):
        op = pm.deref(a[0])
        return I(0, "u8") if is_noop(op) else I(op.opcode, "u8")

    def n_execute_op(it, a, d, m):
        it.events.append(("exec", pm.deref(a[1])))
        return En("Ok", [UNIT], ty="Result")

    def n_dbg(it, a, d, m):
        it.events.append(("dbg", pm.deref(a[1])))
        return UNIT

    def n_trace(it, a, d, m):
        it.events.append(("row", m.group(1), [pm.deref(x) for x in a[1:]]))
        return UNIT

    def n_remove(it, a, d, m):
        g, op = pm.deref(a[0]), pm.deref(a[1])
        it.events.append(("remove", g, op))
        name = [n for n in it.fns if n == "remove_opcode_from_group" or n.endswith("::remove_opcode_from_group")]
        return it.run_fn(it.fns[name[0]].parsed(), [g, op], native_ok=False)

    class BlockStack:
        pass

    def n_bs_push(it, a, d, m):
        it.events.append(("block_push", pm.deref(a[1])))
        return F(it.ctx.var("parent_addr"))

    def n_bs_peek(it, a, d, m):
        bs = pm.deref(a[0])
        return Ref({"b": bs.info}, "b")

    def n_bs_pop(it, a, d, m):
        bs = pm.deref(a[0])
        it.events.append(("block_pop",))
        return bs.info

    class Iter:
        def __init__(self, lst, start=0, enum=False):
            self.lst, self.i, self.enum = lst, start, enum

    def n_iter(it, a, d, m):
        return Iter(pm.deref(a[0]))

    def n_into_iter_vec(it, a, d, m):
        return Iter(list(pm.deref(a[0])))

    def n_enumerate(it, a, d, m):
        x = pm.deref(a[0])
        return Iter(x.lst, x.i, True)

    def n_skip(it, a, d, m):
        x = pm.deref(a[0])
        return Iter(x.lst, x.i + a[1].v, x.enum)

    def n_next_ref(it, a, d, m):
        x = pm.deref(a[0])
        if x.i >= len(x.lst):
            return En("None", [], ty="Option")
        x.i += 1
        r = Ref(x.lst, x.i - 1)
        return En("Some", [[I(x.i - 1, "usize"), r] if x.enum else r], ty="Option")

    def n_next_val(it, a, d, m):
        x = pm.deref(a[0])
        if x.i >= len(x.lst):
            return En("None", [], ty="Option")
        x.i += 1
        return En("Some", [x.lst[x.i - 1]], ty="Option")

    def n_vec_push(it, a, d, m):
        pm.deref(a[0]).append(pm.deref(a[1]))
        return UNIT

    def n_last(it, a, d, m):
        l = pm.deref(a[0])
        return En("Some", [Ref(l, len(l) - 1)], ty="Option") if l else En("None", [], ty="Option")

    def n_bt_eq(it, a, d, m):
        x, y = pm.deref(a[0]), pm.deref(a[1])
        if x.variant != y.variant:
            return False
        return all(f is g or f == g for f, g in zip(x.fields, y.fields))

    def n_vec_pop(it, a, d, m):
        l = pm.deref(a[0])
        return En("Some", [l.pop()], ty="Option") if l else En("None", [], ty="Option")

    def n_as_mut(it, a, d, m):
        o = pm.deref(a[0])
        if o.variant == "None":
            return En("None", [], ty="Option")
        return En("Some", [Ref(o.fields, 0)], ty="Option")

    def n_hash(it, a, d, m):
        return Opaque("span_hash")

    def n_npo2(it, a, d, m):
        x = a[0].v
        if isinstance(x, int):
            return I(1 << (x - 1).bit_length() if x > 1 else 1, "usize")
        return I(z3.If(x <= 1, 1, z3.If(x <= 2, 2, z3.If(x <= 4, 4, z3.If(x <= 8, 8, 16)))), "usize")

    def real(it, suffix, where):
        c = [n for n in it.fns if n.endswith(suffix) and where in n]
        if len(c) != 1:
            raise Unsupported(f"{suffix} not found uniquely: {c}")
        return it.fns[c[0]].parsed()

    def span_ctx(dec):
        sc = dec[dec.names.index("span_context")]
        if sc.variant != "Some":
            return None
        st = sc.fields[0]
        order = opsum.struct_fields(os.path.join(REPO, "processor/src/decoder/mod.rs"), "SpanContext")
        return {n: st[i] for i, n in enumerate(order)}

    def n_remove(it, a, d, m):
        it.events.append(("remove", pm.deref(a[0]), pm.deref(a[1])))
        return it.run_fn(real(it, "remove_opcode_from_group", ""), a)

    def logged(kind, suffix):
        def h(it, a, d, m):
            dec = pm.deref(a[0])
            it.events.append((kind, span_ctx(dec), [pm.deref(x) for x in a[1:]]))
            return it.run_fn(real(it, "::" + suffix, "processor/src/decoder/mod.rs:348"), a)
        return h

    return [
        (re.compile(r"remove_opcode_from_group"), n_remove),
        (re.compile(r"Decoder::start_op_group"), logged("start_group", "start_op_group")),
        (re.compile(r"Decoder::respan"), logged("respan", "respan")),
        (re.compile(r"decoder::<impl Process<H>>::respan"), lambda it, a, d, m: it.run_fn(real(it, "::respan", "processor/src/decoder/mod.rs:38"), a)),
        (re.compile(r"Decoder::end_span"), logged("end_span", "end_span")),
        (re.compile(r"(?:std::vec::)?Vec::<.*>::new"), lambda it, a, d, m: []),
        (re.compile(r"(?:std::vec::)?Vec::<.*>::push"), n_vec_push),
        (re.compile(r"(?:std::vec::)?Vec::<.*>::len|core::slice::<impl \[.*\]>::len"), lambda it, a, d, m: I(len(pm.deref(a[0])), "usize")),
        (re.compile(r"(?:std::vec::)?Vec::<.*>::is_empty"), lambda it, a, d, m: len(pm.deref(a[0])) == 0),
        (re.compile(r"<(?:std::vec::)?Vec<.*> as Deref>::deref|<(?:std::vec::)?Vec<.*> as DerefMut>::deref_mut"), pm.n_identity),
        (re.compile(r"<(?:std::vec::)?Vec<.*> as IntoIterator>::into_iter"), n_into_iter_vec),
        (re.compile(r"<std::vec::IntoIter<.*> as Iterator>::next"), n_next_val),
        (re.compile(r"core::slice::<impl \[.*\]>::iter"), n_iter),
        (re.compile(r"<std::slice::Iter<'_, .*> as Iterator>::enumerate"), n_enumerate),
        (re.compile(r"<std::slice::Iter<'_, .*> as Iterator>::skip"), n_skip),
        (re.compile(r"<(?:Enumerate|Skip)<.*> as IntoIterator>::into_iter"), pm.n_identity),
        (re.compile(r"<(?:Enumerate|Skip)<.*> as Iterator>::next|<std::slice::Iter<'_, .*> as Iterator>::next"), n_next_ref),
        (re.compile(r"core::slice::<impl \[.*\]>::last"), n_last),
        (re.compile(r"flatten_slice_elements::<.*>"), lambda it, a, d, m: Opaque("flat")),
        (re.compile(r"hasher::hash_elements"), n_hash),
        (re.compile(r"core::num::<impl usize>::next_power_of_two"), n_npo2),
        (re.compile(r"(?:miden_core::code_blocks::)?Span::decorator_iter|DecoratorIterator::<'_>::new"), lambda it, a, d, m: Opaque("decorators")),
        (re.compile(r"DecoratorIterator::<'_>::next_filtered|<DecoratorIterator<'_> as Iterator>::next"), lambda it, a, d, m: En("None", [], ty="Option")),
        (re.compile(r"<DecoratorIterator<'_> as IntoIterator>::into_iter"), pm.n_identity),
        (re.compile(r"<BlockType as PartialEq>::eq"), n_bt_eq),
        (re.compile(r"core::slice::<impl \[.*\]>::last_mut"), n_last),
        (re.compile(r"(?:std::vec::)?Vec::<.*>::pop"), n_vec_pop),
        (re.compile(r"Option::<.*>::is_some"), lambda it, a, d, m: pm.deref(a[0]).variant == "Some"),
        (re.compile(r"Option::<.*>::is_none"), lambda it, a, d, m: pm.deref(a[0]).variant == "None"),
        (re.compile(r"Option::<.*>::as_mut|Option::<.*>::as_ref"), n_as_mut),
        (re.compile(r"Chiplets::hash_span_block"), lambda it, a, d, m: F(it.ctx.var("span_addr"))),
        (re.compile(r"Operation::imm_value"), imm_value),
        (re.compile(r"Operation::op_code"), op_code),
        (re.compile(r"operations::<impl Process<H>>::execute_op"), n_execute_op),
        (re.compile(r"(?:decoder::trace::)?DecoderTrace::(append_\w+)"), n_trace),
        (re.compile(r"(?:\w+::)*DebugInfo::append_operation"), n_dbg),
    ]



def make_interp():
    core = opsum.load_fns("core", features=None)
    proc = opsum.load_fns()
    fns = dict(core)
    fns.update(proc)
    consts = pm.base_consts(REPO)
    for pref in ("", "program::blocks::span_block::", "span_block::", "miden_core::code_blocks::"):
        consts[pref + "GROUP_SIZE"] = I(9, "usize")
        consts[pref + "BATCH_SIZE"] = I(8, "usize")
        consts[pref + "OP_GROUP_SIZE"] = I(9, "usize")
        consts[pref + "OP_BATCH_SIZE"] = I(8, "usize")
    for pref in ("", "miden_core::", "operations::"):
        consts[pref + "Operation::OP_BITS"] = I(7, "usize")
    consts["miden_air::trace::decoder::NUM_OP_BITS"] = I(7, "usize")
    consts["miden_air::trace::chiplets::hasher::HASH_CYCLE_LEN"] = I(8, "usize")
    consts["HASH_CYCLE_LEN"] = F(Lin({}, 8))
    return mirsym.Interp(fns, natives() + c08.natives()[2:] + opsum.EXTRA_NATIVES + pm.NATIVES, consts, max_paths=5000)


def decoder_struct(it):
    names = opsum.struct_fields(os.path.join(REPO, "processor/src/decoder/mod.rs"), "Decoder")
    st = Struct()
    bs = Struct()
    bs[0] = []
    vals = dict(block_stack=bs, span_context=En("None", [], ty="Option"), trace=Opaque("decoder_trace"), debug_info=Opaque("debug_info"))
    for i, n in enumerate(names):
        st[i] = vals[n]
    st.names = names
    return st


def run_span(interp, meta, modes):
    span_new = [n for n in interp.fns if n.endswith("::new") and "span_block.rs:55" in n]
    exec_span = [n for n in interp.fns if n.endswith("::execute_span_block") and "processor/src/lib.rs" in n]
    assert len(span_new) == 1 and len(exec_span) == 1, (span_new, exec_span)

    def make_run(it):
        proc = opsum.make_state(it, meta.cols, 0)
        proc.stack.multi_step = True
        proc.decoder = decoder_struct(it)
        it.begin_run(proc)
        ops = [Op(it, i, m) for i, m in enumerate(modes)]
        it.info["ops"] = ops

        def thunk():
            span = it.run_fn(it.fns[span_new[0]].parsed(), [list(ops)])
            it.info["span"] = span
            return it.run_fn(it.fns[exec_span[0]].parsed(), [Ref({"p": proc}, "p"), Ref({"s": span}, "s")])
        return thunk

    return interp.explore(make_run)



def val(ctx, f):
    return ctx.value(f.l) if not f.l.is_const() else z3.IntVal(f.l.const)


def opcode_of(op):
    return z3.IntVal(0) if is_noop(op) else op.opcode


def check_path(res, tag, modes, V, cov):
    """obligations D1..D6 on one path; returns list of (label, z3 model dict) candidates"""
    ctx = res.ctx
    ops = res.info["ops"]
    ev = res.events
    cands = []
    solver = z3.Solver()
    solver.set("timeout", 60000)
    solver.add(ctx.side)
    solver.add(res.pc)

    def decide(label, post):
        cov["queries"] += 1
        solver.push()
        solver.add(z3.Not(post))
        r = solver.check()
        if r == z3.sat:
            m = solver.model()
            cands.append((label, {f"opc{o.i}": m.eval(o.opcode, model_completion=True).as_long() for o in ops} |
                          {f"imm{o.i}": (z3.is_true(m.eval(o.has_imm, model_completion=True)) if not isinstance(o.has_imm, bool) else o.has_imm) for o in ops}))
        solver.pop()
        if r == z3.unsat:
            V.add(f"{tag}: {label}", "discharged")
        elif r == z3.unknown:
            V.add(f"{tag}: {label}", "inconclusive", detail="solver unknown")
        return r == z3.unsat

    def path_model():
        """any concrete operation sequence that follows this path (for the native replay)"""
        if solver.check() != z3.sat:
            return None
        m = solver.model()
        return ({f"opc{o.i}": m.eval(o.opcode, model_completion=True).as_long() for o in ops} |
                {f"imm{o.i}": (z3.is_true(m.eval(o.has_imm, model_completion=True)) if not isinstance(o.has_imm, bool) else o.has_imm) for o in ops})

    def structural(label, ok, detail=""):
        if ok:
            V.add(f"{tag}: {label}", "discharged")
        else:
            cands.append((label + (": " + detail if detail else ""), path_model()))

    if res.outcome != "ok" or not (isinstance(res.value, En) and res.value.variant == "Ok"):
        structural("D1 the span executes without panic or error", False, str(res.value)[:120])
        return cands
    execs = [e[1] for e in ev if e[0] == "exec"]
    rows = [e for e in ev if e[0] == "row"]
    n_respan = sum(1 for e in rows if e[1] == "append_respan")
    # D1: control rows execute one NOOP each: first exec, last exec, one after each respan
    ctl_ok = len(execs) >= 2 and is_noop(execs[0]) and is_noop(execs[-1])
    structural("D1 no panic; SPAN and END rows execute one NOOP each", ctl_ok)
    # walk the event list: a user op is decoded (append_user_op row) immediately before it is executed
    seq = []  # (op, op_idx F, groups_left F, ops_left F, group value before removal)
    i = 0
    order_ok = True
    pending_remove = None
    ctl_execs = 0
    for k, e in enumerate(ev):
        if e[0] == "remove":
            pending_remove = e
        elif e[0] == "row" and e[1] == "append_user_op":
            op = e[2][0]
            rest = [x for x in ev[k + 1:k + 3] if x[0] != "dbg"]
            nxt = rest[0] if rest else None
            same = lambda a, b: a is b or (is_noop(a) and is_noop(b))  # noqa: E731
            if pending_remove is None or not same(pending_remove[2], op) or nxt is None or nxt[0] != "exec" or not same(nxt[1], op):
                order_ok = False
            seq.append(dict(op=op, op_idx=e[2][5], groups_left=e[2][3], ops_left=e[2][4], before=pending_remove[1] if pending_remove else None))
            pending_remove = None
    structural("D2 every operation is decoded immediately before it is executed", order_ok and len(seq) + 2 + n_respan == len(execs))
    user = [x["op"] for x in seq if not is_noop(x["op"])]
    structural("D2 executed operations minus inserted NOOPs == the span's operations, in order",
               len(user) == len(ops) and all(a is b for a, b in zip(user, ops)), f"{user} vs {ops}")
    # D7: the operation recorded for the debug iterator (VmStateIterator) is the operation of the trace row
    want_dbg = []
    for e in rows:
        want_dbg.append({"append_span_start": "Span", "append_respan": "Respan", "append_span_end": "End"}.get(e[1], e[2][0] if e[1] == "append_user_op" else e[1]))
    got_dbg = [e[1] for e in ev if e[0] == "dbg"]

    def same_dbg(w, g):
        if isinstance(w, str):
            return isinstance(g, En) and g.variant == w
        return w is g or (is_noop(w) and is_noop(g))
    structural("D7 the debug operation stream names the operation of every decoder row (SPAN, ops, RESPAN, END)",
               len(want_dbg) == len(got_dbg) and all(same_dbg(w, g) for w, g in zip(want_dbg, got_dbg)),
               f"rows {[w if isinstance(w, str) else repr(w) for w in want_dbg][:12]} vs recorded {[repr(g) for g in got_dbg][:12]}")
    # D3: where NOOPs were inserted
    for j, x in enumerate(seq):
        if not is_noop(x["op"]):
            continue
        idx = x["op_idx"].l.const if x["op_idx"].l.is_const() else None
        if idx == 0:
            decide(f"D3 padding NOOP #{j} is alone in a group whose value is 0", val(ctx, x["before"]) == 0)
            nxt_same_group = j + 1 < len(seq) and seq[j + 1]["op_idx"].l.is_const() and seq[j + 1]["op_idx"].l.const != 0
            structural(f"D3 padding NOOP #{j} is the only operation of its group", not nxt_same_group)
        else:
            prev = seq[j - 1]["op"] if j > 0 else None
            has = prev is not None and not is_noop(prev) and (prev.has_imm if isinstance(prev.has_imm, bool) else None)
            if has is None and prev is not None and not is_noop(prev):
                decide(f"D3 NOOP #{j} follows an immediate-carrying operation", prev.has_imm)
            else:
                structural(f"D3 NOOP #{j} follows an immediate-carrying operation", bool(has))
            nxt_new_group = j + 1 >= len(seq) or (seq[j + 1]["op_idx"].l.is_const() and seq[j + 1]["op_idx"].l.const == 0)
            structural(f"D3 NOOP #{j} closes its group", nxt_new_group)
    # D4: decode consistency and op_idx
    expect_idx = 0
    for j, x in enumerate(seq):
        g = val(ctx, x["before"])
        decide(f"D4 op #{j}: low 7 bits of the group value are its opcode", z3.And(g % 128 == opcode_of(x["op"]), g >= opcode_of(x["op"])))
        idx = x["op_idx"].l.const if x["op_idx"].l.is_const() else None
        if idx == 0:
            expect_idx = 0
        structural(f"D4 op #{j}: op_idx is its position in the group (<= 8)", idx == expect_idx and idx <= 8, f"{idx} vs {expect_idx}")
        expect_idx += 1
    # D5: group value exhausted when moving on
    for k, e in enumerate(ev):
        if e[0] in ("start_group", "respan", "end_span"):
            sc = e[1]
            if sc is None:
                structural(f"D5 {e[0]} inside a span", False)
                continue
            decide(f"D5 event {k} ({e[0]}): previous group fully decoded (value 0)", val(ctx, sc["group_ops_left"]) == 0)
            if e[0] == "end_span":
                decide("D6 group counter is 0 at END", val(ctx, sc["num_groups_left"]) == 0)
    # D6: counter stays a small non-negative number
    for j, x in enumerate(seq):
        decide(f"D6 op #{j}: group counter in range", z3.And(val(ctx, x["groups_left"]) >= 0, val(ctx, x["groups_left"]) < 2**16))
    return cands



def shapes_for(t):
    S = "sym"
    quick = [[S] * n for n in range(1, 6)]
    quick += [[False] * 7 + [S, S, S],          # group boundary at 9 operations, immediate may not be 9th
              [False] * 8 + [S, S],
              [True] * 6 + [S, S, S],            # 8-group batch boundary reached through immediates -> RESPAN
              [False] * 9 + [S] + [False] * 8 + [S]]
    if t == "quick":
        return quick
    return quick + [[S] * 6, [S] * 7, [False] * 73, [False] * 70 + [S, S, S], [True] * 7 + [S] * 4,
                    [False] * 17 + [S] * 3 + [False] * 7, [False] * 62 + [True] * 2 + [S] * 3]


_W = {}


def _worker(args):
    si, modes = args
    V = Verdict(PROP)
    cov = dict(paths=0, queries=0, cands=[])
    tag0 = f"shape{si}[n={len(modes)}]"
    t0 = time.time()
    try:
        paths = run_span(_W["interp"], _W["meta"], modes)
    except (Unsupported, mirsym.PathLimit) as e:
        V.add(tag0, "inconclusive", detail=f"{type(e).__name__}: {e}")
        return V.obligations, cov
    cov["paths"] = len(paths)
    for pi, res in enumerate(paths):
        for label, model in check_path(res, f"{tag0}#p{pi}", modes, V, cov):
            cov["cands"].append((f"{tag0}#p{pi}: {label}", model, [m if m != "sym" else None for m in modes]))
    cov["time"] = [(tag0, round(time.time() - t0, 1))]
    for o in V.obligations:
        o["detail"] = None if o.get("detail") is None else str(o["detail"])[:300]
    return V.obligations, cov


def replay(V, cands, cov):
    """a candidate's immediate pattern is turned into a real span (PUSH for immediate-carrying
    operations, NOOP for opcode 0, INCR otherwise) and the decoder columns of the real trace are
    checked by the native oracle (span_decode)"""
    import masmsym
    seen = {}
    for name, model, modes in cands:
        n = len(modes)
        if model is None:
            model = {}
        ops = []
        for i in range(n):
            imm = modes[i] if modes[i] is not None else bool(model.get(f"imm{i}", False))
            if imm:
                ops.append({"name": "Push", "imm": "1"})
            elif model.get(f"opc{i}", 1) == 0:
                ops.append({"name": "Noop"})
            else:
                ops.append({"name": "Incr"})
        key = str(ops)
        if key not in seen:
            seen[key] = masmsym.native([{"kind": "span_decode", "ops": ops}], "c13")[0]
            cov["native"] += 1
        nat = seen[key]
        path = save_replay(PROP, re.sub(r"[^A-Za-z0-9_]", "_", name)[:70], dict(kind="span_decode", ops=ops, obligation=name, native=nat))
        if nat.get("status") != "ok" or not nat.get("consistent"):
            what = nat.get("problems", [nat.get("status")])[:2]
            V.violation(name, path, f"{name}; native trace of the span {[o['name'] for o in ops]}: {what}", key="span:" + name.split(": ")[1][:2])
        else:
            V.add(name, "inconclusive", detail=f"solver counterexample did not reproduce in the native trace ({[o['name'] for o in ops][:12]}..)")


def main():
    t0 = time.time()
    V = Verdict(PROP)
    meta = airq.get_meta()
    interp = make_interp()
    import masmsym
    masmsym.replay_bin()
    shapes = shapes_for(tier())
    _W.update(meta=meta, interp=interp)
    import multiprocessing as mp_
    nproc = int(os.environ.get("VERIF_JOBS", "0")) or max(1, min(12, (os.cpu_count() or 2) - 2))
    with mp_.get_context("fork").Pool(nproc) as pool:
        results = pool.map(_worker, list(enumerate(shapes)), chunksize=1)
    cov = dict(paths=0, queries=0, native=0, times=[])
    cands = []
    for obs, c in results:
        V.obligations += obs
        V.inconclusive += [o["name"] for o in obs if o["status"] == "inconclusive"]
        cov["paths"] += c["paths"]
        cov["queries"] += c["queries"]
        cov["times"] += c.get("time", [])
        cands += c["cands"]
    # vacuity guards: immediates, inserted NOOPs and a RESPAN were all exercised
    names = " ".join(o["name"] for o in V.obligations)
    V.add("coverage: paths with immediate-closing NOOPs, padding NOOPs and RESPAN exist",
          "discharged" if ("D3 NOOP" in names and "D3 padding NOOP" in names and "(respan)" in names) else "inconclusive")
    replay(V, cands, cov)
    c = V.counts()
    coverage = dict(
        states=cov["paths"], transitions=c.get("discharged", 0), traces_validated_against_impl=cov["native"],
        samples=V.obligations[:5] + [o for o in V.obligations if o["status"] != "discharged"][:5],
        obligations=len(V.obligations), discharged=c.get("discharged", 0), queries=cov["queries"],
        shapes=[["S" if m == "sym" else ("I" if m else "-") for m in sh] for sh in shapes], shape_times=cov["times"],
        functions_encoded=["miden-core: Span::new, batch_ops, OpBatchAccumulator::{new,can_accept_op,add_op,into_batch}, get_span_op_group_count (MIR)",
                           "miden-processor: Process::{execute_span_block, execute_op_batch, start_span_block, respan, end_span_block}, "
                           "Decoder::{start_span, respan, start_op_group, execute_user_op, end_span}, remove_opcode_from_group, BlockStack::{push,peek,peek_mut,pop} (MIR)"],
        modelled_natively=["Process::execute_op (event only: the operation's own effect is C05's subject)", "hash of the span / hasher chiplet address (fresh values)",
                           "decoder trace rows and debug info (event sinks)", "decorators (none)", "Vec / slice iterators"],
        bounds="span shapes as listed: '-' no immediate, 'I' immediate, 'S' symbolic flag; opcodes and immediate values symbolic everywhere; span is the root block",
        not_covered="MAST traversal across blocks (joins/splits/loops: C06), decoder trace column layout, the final row's program hash, spans longer than the listed shapes",
        sources_fingerprint=repo_fingerprint(["processor/src/lib.rs", "processor/src/decoder", "core/src/program/blocks/span_block.rs"]),
        evaluations=len(V.obligations), distinct_nontrivial=c.get("discharged", 0), rule="obligations D1-D6 per path",
    )
    write_evidence(PROP, "model_checking", coverage, ["field/integer encoding of lib/field.py", "z3", "rustc MIR of the pinned nightly agrees with the stable build (native replay of counterexamples)"],
                   time.time() - t0, violations=len(V.violations))
    V.finish()


if __name__ == "__main__":
    main()
