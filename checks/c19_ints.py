"""C19, last clause: "Stack inputs, advice inputs and stack outputs built from integers reject values
that are not canonical field elements."
Engine C on the MIR of miden-core / miden-processor: StackInputs::try_from_values,
AdviceInputs::with_stack_values and StackOutputs::new are executed on n arbitrary (symbolic) u64
values, one obligation set per listed n.  Decided per path:
  I1  the constructor returns Ok  <=>  every integer is < p (and, for StackOutputs, the documented
      length rule for the overflow addresses holds)  - so a non-canonical integer is never accepted
      and a canonical input is never refused;
  I2  on Ok the stored elements are the given integers, in the documented order (stack inputs
      reversed, advice in the given order, outputs as given and padded with zeros to 16), i.e. no
      value is reduced mod p, dropped or reordered on the way in;
  I3  no reachable panic.
Felt::try_from(u64) (winter-math: Err for values >= p) is the only native model; the closures,
iterator pipeline, find_invalid_elements and the length arithmetic are the real MIR.
Counterexamples are replayed through the native constructors (replay job `from_ints`)."""
import os
import re
import sys

import z3

sys.path.insert(0, os.path.join(os.path.dirname(os.path.abspath(__file__)), "..", "lib"))
import masmsym  # noqa: E402
import mirsym  # noqa: E402
import opsum  # noqa: E402
import procmodel as pm  # noqa: E402
import rustlib  # noqa: E402
from common import REPO, save_replay, tier  # noqa: E402
from field import P  # noqa: E402
from mir_parse import Unsupported  # noqa: E402
from mirsym import En, F, I, Opaque, Ref, Struct, UNIT  # noqa: E402

PROP = "C19"


def natives(base):
    def n_into_iter_generic(it, a, d, m):
        x = pm.deref(a[0])
        return x if isinstance(x, rustlib.It) else rustlib.It(list(x))

    def n_collect_result(it, a, d, m):
        src = pm.deref(a[0])
        out = []
        for _ in range(len(src.items)):
            r = pm.deref(src.pop(it))
            if r.variant == "Err":
                return En("Err", list(r.fields), ty="Result")
            out.append(r.fields[0])
        return En("Ok", [out], ty="Result")

    def n_felt_try_from(it, a, d, m):
        x = a[0]
        big = (x.v >= P)
        if it.decide(big):
            return En("Err", [Opaque("string")], ty="Result")
        return En("Ok", [pm.felt_from_int(it, x)], ty="Result")

    def n_map_err(it, a, d, m):
        r = pm.deref(a[0])
        if r.variant == "Ok":
            return r
        fn = rustlib.closure_fn(it, m.group(1))
        return En("Err", [rustlib.call_closure(it, fn, a[1], [r.fields[0]])], ty="Result")

    def n_reverse(it, a, d, m):
        pm.deref(a[0]).reverse()
        return UNIT

    return [
        (re.compile(r"<I as IntoIterator>::into_iter"), n_into_iter_generic),
        (re.compile(r"<.* as Iterator>::collect::<Result<(?:std::vec::)?Vec<.*>, .*>>"), n_collect_result),
        (re.compile(r"<Felt as TryFrom<u64>>::try_from|<miden_crypto::Felt as TryFrom<u64>>::try_from"), n_felt_try_from),
        (re.compile(r"Result::<Felt, (?:std::string::)?String>::map_err::<InputError, \{closure@([^}]*)\}>"), n_map_err),
        (re.compile(r"core::slice::<impl \[.*\]>::reverse"), n_reverse),
    ] + rustlib.NATIVES + base


def u64s(it, prefix, n):
    out = []
    for i in range(n):
        v = z3.Int(f"{prefix}{i}")
        it.assume(z3.And(v >= 0, v <= 2**64 - 1))
        out.append(I(v, "u64"))
    return out


def as_int_term(ctx, x):
    """integer value of a stored element: field element (canonical representative) or raw u64"""
    x = pm.deref(x)
    if isinstance(x, F):
        return z3.IntVal(x.l.const) if x.l.is_const() else ctx.value(x.l)
    if isinstance(x, I):
        return z3.IntVal(x.v) if isinstance(x.v, int) else x.v
    raise Unsupported(f"element {x!r}")


def getfield(st, name, path, sname):
    order = opsum.struct_fields(os.path.join(REPO, path), sname)
    return st[name] if name in st else st[order.index(name)]


def cases(kind):
    thorough = tier() == "thorough"
    if kind == "StackOutputs":
        base = [(0, 0), (1, 0), (2, 0), (16, 0), (16, 1), (17, 0), (17, 1), (17, 2), (18, 2), (18, 3), (3, 1)]
        if thorough:
            base += [(n, m) for n in (15, 19, 20) for m in (0, 1, 3, 4, 5)] + [(24, 9), (24, 8)]
        return base
    return [0, 1, 2, 3, 16, 17] + ([4, 5, 8, 15, 18, 20, 33] if thorough else [])


def run_case(interp, kind, case):
    fname = {"StackInputs": ("::try_from_values", "core/src/stack/inputs.rs"),
             "AdviceInputs": ("::with_stack_values", "processor/src/host/advice/inputs.rs"),
             "StackOutputs": ("::new", "core/src/stack/outputs.rs")}[kind]
    fn = [n for n in interp.fns if n.endswith(fname[0]) and fname[1] in n]
    if len(fn) != 1:
        raise Unsupported(f"{kind}: constructor not found uniquely: {fn}")

    def make_run(it):
        it.begin_run(None)
        if kind == "StackOutputs":
            n, m = case
            st, ad = u64s(it, "s", n), u64s(it, "a", m)
            it.info.update(inputs=(list(st), list(ad)))
            args = [list(st), list(ad)]
        elif kind == "StackInputs":
            vs = u64s(it, "v", case)
            it.info.update(inputs=(list(vs), []))
            args = [list(vs)]
        else:
            vs = u64s(it, "v", case)
            it.info.update(inputs=(list(vs), []))
            order = opsum.struct_fields(os.path.join(REPO, "processor/src/host/advice/inputs.rs"), "AdviceInputs")
            st = Struct()
            for i, nm in enumerate(order):
                val = [] if nm == "stack" else Opaque(nm)
                st[i] = val
                st[nm] = val
            args = [st, list(vs)]

        def thunk():
            return it.run_fn(it.fns[fn[0]].parsed(), args)
        return thunk

    return interp.explore(make_run)


def native_job(kind, model, inputs):
    def g(x):
        return str(model.eval(x.v, model_completion=True).as_long()) if not isinstance(x.v, int) else str(x.v)
    if kind == "StackOutputs":
        return dict(kind="from_ints", type=kind, stack=[g(x) for x in inputs[0]], overflow_addrs=[g(x) for x in inputs[1]])
    return dict(kind="from_ints", type=kind, values=[g(x) for x in inputs[0]])


def expected(kind, job):
    """what the documented contract says for concrete integers"""
    if kind == "StackOutputs":
        st, ad = [int(x) for x in job["stack"]], [int(x) for x in job["overflow_addrs"]]
        n = max(len(st), 16)
        ok = all(x < P for x in st + ad) and len(ad) == (n - 15 if n > 16 else 0) and len(st) <= 65535
        return ok, [str(x) for x in st + [0] * (16 - len(st))]
    vs = [int(x) for x in job["values"]]
    ok = all(x < P for x in vs)
    return ok, [str(x) for x in (reversed(vs) if kind == "StackInputs" else vs)]


def confirm(V, cov, kind, tag, solver, inputs, what, key):
    job = native_job(kind, solver.model(), inputs)
    nat = masmsym.native([job], "ints")[0]
    cov["native_validated"] += 1
    ok, vals = expected(kind, job)
    got_ok = nat.get("status") == "ok"
    got_vals = nat.get("raw_stack", nat.get("values"))
    bad = nat.get("status") == "panic" or got_ok != ok or (ok and [str(x) for x in got_vals] != vals)
    rep = dict(kind="from_ints", property=PROP, job=job, native=nat, expected=dict(accepted=ok, values=vals), obligation=tag)
    if bad:
        path = save_replay(PROP, re.sub(r"[^A-Za-z0-9_]", "_", tag)[:70], rep)
        V.violation(tag, path, f"{kind} from integers {job}: {what}; native constructor: {nat}; contract: accepted={ok}", key=key)
    else:
        V.add(tag, "inconclusive", detail=f"{what} in the encoding, but the native constructor behaves as documented on the model's input: {nat}")


def check(interp, kind, case, V, cov):
    name = f"ints:{kind}[n={case}]"
    try:
        paths = run_case(interp, kind, case)
    except Unsupported as e:
        V.add(name, "inconclusive", detail=f"outside the interpreter's subset: {e}")
        return
    except mirsym.PathLimit as e:
        V.add(name, "inconclusive", detail=f"path cap of the interpreter exceeded: {e}")
        return
    cov["paths"] += len(paths)
    for pi, res in enumerate(paths):
        tag = f"{name}#p{pi}"
        s = z3.Solver()
        s.set("timeout", 60000)
        s.add(res.ctx.side)
        s.add(res.pc)
        cov["queries"] += 1
        if s.check() != z3.sat:
            continue
        st_in, ad_in = res.info["inputs"]
        if res.outcome != "ok":
            confirm(V, cov, kind, tag, s, (st_in, ad_in), f"the constructor panics ({res.value})", f"ints:{kind}:panic")
            continue
        V.add(f"{tag}: I3 no panic", "discharged")
        canonical = z3.And([x.v < P for x in st_in + ad_in] + [z3.BoolVal(True)])
        if kind == "StackOutputs":
            n, m = case
            want_m = (max(n, 16) - 15) if n > 16 else 0
            canonical = z3.And(canonical, z3.BoolVal(m == want_m))
        val = res.value
        is_ok = isinstance(val, En) and val.variant == "Ok"
        # I1: Ok <=> canonical
        s.push()
        s.add(z3.Not(canonical) if is_ok else canonical)
        r = s.check()
        cov["queries"] += 1
        if r == z3.unsat:
            V.add(f"{tag}: I1 {'accepted => every integer canonical' if is_ok else 'refused => some integer not canonical / length rule broken'}", "discharged")
        elif r == z3.sat:
            confirm(V, cov, kind, f"{tag}: I1", s, (st_in, ad_in),
                    "a non-canonical integer is accepted" if is_ok else "a canonical input is refused", f"ints:{kind}:I1")
        else:
            V.add(f"{tag}: I1", "inconclusive", detail="solver unknown")
        s.pop()
        if not is_ok:
            continue
        # I2: stored elements
        try:
            obj = pm.deref(val.fields[0])
            if kind == "StackInputs":
                got = getfield(obj, "values", "core/src/stack/inputs.rs", "StackInputs")
                want = [x.v for x in reversed(st_in)]
                pairs = [(got, want)]
            elif kind == "AdviceInputs":
                got = getfield(obj, "stack", "processor/src/host/advice/inputs.rs", "AdviceInputs")
                pairs = [(got, [x.v for x in st_in])]
            else:
                got = getfield(obj, "stack", "core/src/stack/outputs.rs", "StackOutputs")
                gad = getfield(obj, "overflow_addrs", "core/src/stack/outputs.rs", "StackOutputs")
                pairs = [(got, [x.v for x in st_in] + [0] * (16 - len(st_in))), (gad, [x.v for x in ad_in])]
            conj = []
            for g, w in pairs:
                g = pm.deref(g)
                if len(g) != len(w):
                    conj.append(z3.BoolVal(False))
                    continue
                for x, y in zip(g, w):
                    conj.append(as_int_term(res.ctx, x) == (z3.IntVal(y) if isinstance(y, int) else y))
            post = z3.And(conj + [z3.BoolVal(True)])
        except Unsupported as e:
            V.add(f"{tag}: I2", "inconclusive", detail=str(e))
            continue
        s.push()
        s.add(z3.Not(post))
        r = s.check()
        cov["queries"] += 1
        if r == z3.unsat:
            V.add(f"{tag}: I2 stored elements are the given integers in the documented order", "discharged")
        elif r == z3.sat:
            confirm(V, cov, kind, f"{tag}: I2", s, (st_in, ad_in), "the stored elements differ from the given integers", f"ints:{kind}:I2")
        else:
            V.add(f"{tag}: I2", "inconclusive", detail="solver unknown")
        s.pop()


def run(V, cov, core_fns, base_natives, consts):
    """called from c19.main()"""
    nat = natives(base_natives)
    interp_core = mirsym.Interp(core_fns, nat, consts, max_paths=600)
    for kind in ("StackInputs", "StackOutputs"):
        for case in cases(kind):
            check(interp_core, kind, case, V, cov)
    proc_fns = opsum.load_fns("processor", "internals")
    interp_proc = mirsym.Interp(proc_fns, nat, consts, max_paths=600)
    for case in cases("AdviceInputs"):
        check(interp_proc, "AdviceInputs", case, V, cov)
