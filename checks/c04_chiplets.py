"""C04 (range checker, chiplet selectors, bitwise chiplet, memory chiplet): obligations over the
real chiplets::enforce_constraints / range::enforce_constraints instantiated symbolically."""
import os
import re
import sys
import time

import z3

sys.path.insert(0, os.path.join(os.path.dirname(os.path.abspath(__file__)), "..", "lib"))
import airq  # noqa: E402
import airsolve  # noqa: E402
from c04_stack import support  # noqa: E402
from common import log, save_replay  # noqa: E402
from field import P, FieldCtx, Lin, load_dag  # noqa: E402

PROP = "C04"
TMO = int(os.environ.get("VERIF_SOLVER_TIMEOUT_MS", "60000"))


def roots_touching(meta, r, lo, hi, allow_k=True):
    """indices of non-zero constraints whose support lies inside columns [lo,hi) (cur/next)"""
    memo = {}
    idx = []
    for i, root in enumerate(r["roots"]):
        if "c" in root:
            continue
        sup = support(r["arena"], root, memo)
        cols = [int(v[1:]) for v in sup if v[0] in "cn" and v[1:].isdigit()]
        if cols and all(lo <= x < hi for x in cols):
            idx.append(i)
    return idx


def decide_all(ctx, assume, posts, V, prefix, cov, rng, replay_fn=None):
    s = z3.Solver()
    s.set("timeout", TMO)
    s.add(ctx.side)
    s.add(assume)
    t0 = time.time()
    vac = s.check()
    cov["queries"] += 1
    if vac != z3.sat:
        V.add(prefix, "inconclusive", time.time() - t0, f"vacuity witness: {vac}")
        return
    ok, env = airsolve.selftest_axioms(ctx, rng, samples=2)
    if not ok:
        V.add(prefix, "inconclusive", detail="axiom self-test failed")
        return
    for label, b in posts:
        t1 = time.time()
        st, info = airsolve.decide(ctx, s, assume, b)
        cov["queries"] += 1
        dt = time.time() - t1
        cov["solver_time_s"] += dt
        name = f"{prefix}:{label}"
        if st == "unsat":
            V.add(name, "discharged", dt)
        elif st == "sat":
            rep = dict(kind="air_chiplet", property=PROP, obligation=name, env={k: str(v) for k, v in info.items()})
            path = save_replay(PROP, re.sub(r"[^A-Za-z0-9_.=-]", "_", name.replace("'", "p"))[:80], rep)
            confirmed = replay_fn(info) if replay_fn else None
            if confirmed is False:
                V.add(name, "inconclusive", dt, "model did not reproduce natively")
            else:
                V.violation(name, path, f"{name}: constraints hold (real arithmetic{', native AIR' if confirmed else ''}) but post fails: "
                            + str({k: v for k, v in info.items() if v})[:400], key=name.replace(" ", ""))
        else:
            V.add(name, "inconclusive", dt, str(info))


# ---------------------------------------------------------------------------------------------------
def run_range(meta, V, rng, cov):
    c = meta.cols
    r = airq.run_jobs([{"kind": "transition", "name": "range", "cur": {}, "next": {}, "per": {}}], "c04_range")[0]
    idx = roots_touching(meta, r, c["RANGE_M"], c["RANGE_V"] + 1)
    ctx = FieldCtx()
    ctx.expand_limit = 0  # the 9-factor product only needs the no-zero-divisor axiom
    roots = load_dag(ctx, r["arena"], [r["roots"][i] for i in idx])
    v, vn = ctx.var(f"c{c['RANGE_V']}"), ctx.var(f"n{c['RANGE_V']}")
    assume = [ctx.is_zero(x) for x in roots]
    d = ctx.value(vn - v)
    allowed = [0] + [3**k for k in range(8)]
    posts = [("v' - v in {0,1,3,9,27,81,243,729,2187}", z3.Or([d == a for a in allowed]))]

    def replay(env):
        W = meta.W
        cur, nxt = [0] * W, [0] * W
        cur[c["RANGE_V"]], nxt[c["RANGE_V"]] = env.get(f"c{c['RANGE_V']}", 0), env.get(f"n{c['RANGE_V']}", 0)
        res = airq.run_jobs([{"kind": "eval", "cur": [str(x) for x in cur], "next": [str(x) for x in nxt], "per": []}], "c04_eval")[0]
        return all(int(res["results"][i]) == 0 for i in idx)

    if len(idx) != 1:
        V.add("range:constraint-found", "inconclusive", detail=f"expected exactly one range-checker main constraint, found {idx}")
        return
    decide_all(ctx, assume, posts, V, "range", cov, rng, replay)


# ---------------------------------------------------------------------------------------------------
def run_selectors(meta, V, rng, cov):
    """chiplet selector columns: binary where active, and once set they stay set"""
    c = meta.cols
    ch = c["CHIPLETS"]
    r = airq.run_jobs([{"kind": "transition", "name": "sel", "cur": {}, "next": {}, "per": {}}], "c04_sel")[0]
    idx = roots_touching(meta, r, ch, ch + 3)
    ctx = FieldCtx()
    roots = load_dag(ctx, r["arena"], [r["roots"][i] for i in idx])
    s = [ctx.var(f"c{ch+i}") for i in range(3)]
    n = [ctx.var(f"n{ch+i}") for i in range(3)]
    sv = [ctx.value(x) for x in s]
    nv = [ctx.value(x) for x in n]
    assume = [ctx.is_zero(x) for x in roots]
    posts = [
        ("s0 binary", z3.Or(sv[0] == 0, sv[0] == 1)),
        ("s0=1 => s1 binary", z3.Implies(sv[0] == 1, z3.Or(sv[1] == 0, sv[1] == 1))),
        ("s0=s1=1 => s2 binary", z3.Implies(z3.And(sv[0] == 1, sv[1] == 1), z3.Or(sv[2] == 0, sv[2] == 1))),
        ("s0=1 => s0'=1", z3.Implies(sv[0] == 1, nv[0] == 1)),
        ("s0=s1=1 => s1'=1", z3.Implies(z3.And(sv[0] == 1, sv[1] == 1), nv[1] == 1)),
        ("s0=s1=s2=1 => s2'=1", z3.Implies(z3.And(sv[0] == 1, sv[1] == 1, sv[2] == 1), nv[2] == 1)),
    ]
    decide_all(ctx, assume, posts, V, "chiplet-selectors", cov, rng)


# ---------------------------------------------------------------------------------------------------
def run_bitwise(meta, V, rng, cov):
    """Bitwise chiplet, inductively over the 8-row cycle.
    Stage 1 (real constraints, one row pair per position class first/middle/last of the cycle):
      every row: decomposition bits binary, output = 16*output_prev + nibble_op(bits);
      first row: a = nibble(a bits), b = nibble(b bits), output_prev = 0;
      rows 0..6 -> next: a' = 16a + nibble(a bits'), b' likewise, output_prev' = output, selector kept.
    Stage 2 (pure arithmetic over the recurrences, 8 rows): a[7], b[7] are the 32-bit values of the
      nibbles and output[7] = a[7] AND/XOR b[7] (bit-vector semantics)."""
    c = meta.cols
    ch = c["CHIPLETS"]
    nper = len(meta.periodic)
    k0i, k1i = nper - 2, nper - 1
    if not (meta.periodic[k0i] == [1, 0, 0, 0, 0, 0, 0, 0] and meta.periodic[k1i] == [1, 1, 1, 1, 1, 1, 1, 0]):
        V.add("bitwise:periodic-masks", "violation", detail=f"unexpected cycle masks {meta.periodic[k0i]} {meta.periodic[k1i]}")
        return
    V.add("bitwise:periodic-masks", "discharged", detail="k0 = first row of the 8-cycle, k1 = all but the last row")
    classes = {"first": (1, 1), "middle": (0, 1), "last": (0, 0)}
    jobs = [{"kind": "transition", "name": f"bw-{n}", "cur": {str(ch): 1, str(ch + 1): 0}, "next": {str(ch + 1): 0},
             "per": {str(k0i): k0, str(k1i): k1}} for n, (k0, k1) in classes.items()]
    res = dict(zip(classes, airq.run_jobs(jobs, "c04_bitwise")))
    lo, hi = c["BITWISE_SELECTOR"], c["BITWISE_OUTPUT"] + 1
    sel = c["BITWISE_SELECTOR"]
    A, B, OUT, PREV = c["BITWISE_A"], c["BITWISE_B"], c["BITWISE_OUTPUT"], c["BITWISE_PREV_OUTPUT"]
    ab, bb = c["BITWISE_A_BITS"], c["BITWISE_B_BITS"]
    for opname, selval in (("AND", 0), ("XOR", 1)):
        for cls, r in res.items():
            ctx = FieldCtx()
            idx = roots_touching(meta, r, ch, hi)
            roots = load_dag(ctx, r["arena"], [r["roots"][i] for i in idx])
            assume = [ctx.is_zero(x) for x in roots]
            V_ = ctx.value

            def cur(col):
                return ctx.var(f"c{col}")

            def nxt(col):
                return ctx.var(f"n{col}")

            assume.append(V_(cur(sel)) == selval)

            def nib(cell, base):
                return sum(V_(cell(base + k)) * (2**k) for k in range(4))

            def bitop(x, y):
                if selval == 0:
                    return z3.If(z3.And(x == 1, y == 1), 1, 0)
                return z3.If(x != y, 1, 0)

            opnib = sum(bitop(V_(cur(ab + k)), V_(cur(bb + k))) * (2**k) for k in range(4))
            posts = [("decomposition bits binary", z3.And([z3.Or(V_(cur(base + k)) == 0, V_(cur(base + k)) == 1)
                                                          for base in (ab, bb) for k in range(4)])),
                     (f"output = 16*output_prev + nibble {opname}", ctx.eq(cur(OUT), cur(PREV).scale(16) + Lin({}, 0)) if False else
                      V_(cur(OUT) - cur(PREV).scale(16)) == opnib)]
            if cls == "first":
                posts += [("a = nibble(a bits)", V_(cur(A)) == nib(cur, ab)), ("b = nibble(b bits)", V_(cur(B)) == nib(cur, bb)),
                          ("output_prev = 0", V_(cur(PREV)) == 0)]
            if cls != "last":
                # next-row bits are binary by the row-level constraint of the next row
                assume += [z3.Or(V_(nxt(base + k)) == 0, V_(nxt(base + k)) == 1) for base in (ab, bb) for k in range(4)]
                posts += [("a' = 16a + nibble(a bits')", V_(nxt(A) - cur(A).scale(16)) == nib(nxt, ab)),
                          ("b' = 16b + nibble(b bits')", V_(nxt(B) - cur(B).scale(16)) == nib(nxt, bb)),
                          ("output_prev' = output", V_(nxt(PREV)) == V_(cur(OUT))),
                          ("selector' = selector", V_(nxt(sel)) == selval)]
            cov["bitwise_constraints"] = len(idx)
            decide_all(ctx, assume, posts, V, f"bitwise-{opname}-{cls}", cov, rng)
        # Stage 2: the recurrences over 8 rows give the 32-bit AND / XOR (bit-vector semantics)
        t0 = time.time()
        s2 = z3.Solver()
        s2.set("timeout", TMO)
        # bit-vector model of the integer recurrences (all values < 2^32, so 64-bit words never wrap)
        W = 64
        abit = [[z3.BitVec(f"a{j}_{k}", W) for k in range(4)] for j in range(8)]
        bbit = [[z3.BitVec(f"b{j}_{k}", W) for k in range(4)] for j in range(8)]
        a, b, o = [None] * 8, [None] * 8, [None] * 8
        for j in range(8):
            for k in range(4):
                s2.add(z3.ULE(abit[j][k], 1), z3.ULE(bbit[j][k], 1))
            na = sum(abit[j][k] * 2**k for k in range(4))
            nb = sum(bbit[j][k] * 2**k for k in range(4))
            if selval == 0:
                no = sum(z3.If(z3.And(abit[j][k] == 1, bbit[j][k] == 1), z3.BitVecVal(1, W), z3.BitVecVal(0, W)) * 2**k for k in range(4))
            else:
                no = sum(z3.If(abit[j][k] != bbit[j][k], z3.BitVecVal(1, W), z3.BitVecVal(0, W)) * 2**k for k in range(4))
            a[j] = (16 * a[j - 1] + na) if j else na
            b[j] = (16 * b[j - 1] + nb) if j else nb
            o[j] = (16 * o[j - 1] + no) if j else no
        want = (a[7] & b[7]) if selval == 0 else (a[7] ^ b[7])
        lim = z3.BitVecVal(2**32, W)
        s2.add(z3.Not(z3.And(z3.ULT(a[7], lim), z3.ULT(b[7], lim), z3.ULT(o[7], lim), o[7] == want)))
        r2 = s2.check()
        cov["queries"] += 1
        V.add(f"bitwise-{opname}:8-row recurrence = 32-bit {opname}", "discharged" if r2 == z3.unsat else "inconclusive",
              time.time() - t0, None if r2 == z3.unsat else str(r2))


# ---------------------------------------------------------------------------------------------------
def run_memory(meta, V, rng, cov):
    c = meta.cols
    ch = c["CHIPLETS"]
    # memory rows: chiplet selectors s0=1, s1=1, s2=0; memory_flag(false) = s0*s1*(1 - s2')
    r = airq.run_jobs([{"kind": "transition", "name": "mem", "cur": {str(ch): 1, str(ch + 1): 1, str(ch + 2): 0},
                        "next": {str(ch + 2): 0}, "per": {}}], "c04_mem")[0]
    lo, hi = c["MEMORY_SELECTORS"], c["MEMORY_D_INV"] + 1
    idx = roots_touching(meta, r, ch, hi)
    ctx = FieldCtx()
    roots = load_dag(ctx, r["arena"], [r["roots"][i] for i in idx])
    assume = [ctx.is_zero(x) for x in roots]

    def cur(col):
        return ctx.var(f"c{col}")

    def nxt(col):
        return ctx.var(f"n{col}")

    V_ = ctx.value
    sel0, sel1 = c["MEMORY_SELECTORS"], c["MEMORY_SELECTORS"] + 1
    CTX, ADDR, CLK, VV = c["MEMORY_CTX"], c["MEMORY_ADDR"], c["MEMORY_CLK"], c["MEMORY_V"]
    D0, D1 = c["MEMORY_D0"], c["MEMORY_D1"]
    same_ctx = V_(cur(CTX)) == V_(nxt(CTX))
    same_addr = V_(cur(ADDR)) == V_(nxt(ADDR))
    delta = nxt(D1).scale(2**16) + nxt(D0)
    # selector cells of the NEXT row are binary by the same constraints applied one row later
    assume += [z3.Or(V_(nxt(sel0)) == 0, V_(nxt(sel0)) == 1), z3.Or(V_(nxt(sel1)) == 0, V_(nxt(sel1)) == 1)]
    posts = [
        ("selectors binary", z3.And(z3.Or(V_(cur(sel0)) == 0, V_(cur(sel0)) == 1), z3.Or(V_(cur(sel1)) == 0, V_(cur(sel1)) == 1))),
        ("read of the same (ctx,addr) returns the previous word",
         z3.Implies(z3.And(same_ctx, same_addr, V_(nxt(sel0)) == 1),
                    z3.And([V_(nxt(VV + i)) == V_(cur(VV + i)) for i in range(4)]))),
        ("same (ctx,addr) read is marked as copy-read (s1'=1)",
         z3.Implies(z3.And(same_ctx, same_addr, V_(nxt(sel0)) == 1), V_(nxt(sel1)) == 1)),
        ("new (ctx,addr) or write is never marked copy-read (s1'=0)",
         z3.Implies(z3.Or(z3.Not(same_ctx), z3.Not(same_addr), V_(nxt(sel0)) == 0), V_(nxt(sel1)) == 0)),
        ("init-read row holds zeros", z3.Implies(z3.And(V_(cur(sel0)) == 1, V_(cur(sel1)) == 0),
                                                 z3.And([V_(cur(VV + i)) == 0 for i in range(4)]))),
        ("ctx change => delta' = ctx' - ctx", z3.Implies(z3.Not(same_ctx), ctx.eq(delta, nxt(CTX) - cur(CTX)))),
        ("same ctx, addr change => delta' = addr' - addr",
         z3.Implies(z3.And(same_ctx, z3.Not(same_addr)), ctx.eq(delta, nxt(ADDR) - cur(ADDR)))),
        ("same ctx and addr => delta' = clk' - clk - 1",
         z3.Implies(z3.And(same_ctx, same_addr), ctx.eq(delta, nxt(CLK) - cur(CLK) - 1))),
    ]
    cov["memory_constraints"] = len(idx)

    def replay(env):
        W = meta.W
        cu, nx = [0] * W, [0] * W
        for k, v in env.items():
            if k[0] == "c" and k[1:].isdigit():
                cu[int(k[1:])] = v
            if k[0] == "n" and k[1:].isdigit():
                nx[int(k[1:])] = v
        cu[ch], cu[ch + 1], cu[ch + 2], nx[ch + 2] = 1, 1, 0, 0
        res = airq.run_jobs([{"kind": "eval", "cur": [str(x) for x in cu], "next": [str(x) for x in nx], "per": []}], "c04_eval")[0]
        return all(int(res["results"][i]) == 0 for i in idx)

    decide_all(ctx, assume, posts, V, "memory", cov, rng, replay)


# ---------------------------------------------------------------------------------------------------
def run_hasher(meta, V, rng, cov):
    """Hasher chiplet, selector / node-index / state-copy constraints per position class of the 8-row
    cycle (periodic masks fixed to that position).  The RPO round relation itself (degree-7 S-box) is
    not encoded: `x -> x^7` being a bijection of the field is a number-theoretic fact outside the
    ground axioms."""
    c = meta.cols
    ch = c["CHIPLETS"]
    per = meta.periodic
    if not (per[0] == [0] * 7 + [1] and per[1] == [0] * 6 + [1, 0] and per[2] == [1] + [0] * 7):
        V.add("hasher:periodic-masks", "violation", detail=f"unexpected cycle masks {per[0]} {per[1]} {per[2]}")
        return
    V.add("hasher:periodic-masks", "discharged", detail="k0 = last row, k1 = second to last, k2 = first row of the 8-cycle")
    n_ark = 24
    classes = {"last": 7, "first": 0, "middle": 3, "before-last": 6}
    jobs = []
    for name, pos in classes.items():
        pv = {str(i): per[i][pos] for i in range(3 + n_ark)}
        # hasher rows: chiplet selector s0 = 0 in this row and the next (hasher_flag = 1 - s0)
        jobs.append({"kind": "transition", "name": f"hasher-{name}", "cur": {str(ch): 0}, "next": {str(ch): 0}, "per": pv})
    res = dict(zip(classes, airq.run_jobs(jobs, "c04_hasher")))
    S, H, IDX = c["HASHER_SELECTORS"], c["HASHER_STATE_COLS"], c["HASHER_NODE_INDEX"]
    for cls, r in res.items():
        ctx = FieldCtx()
        ctx.expand_limit = 0
        idx_all = roots_touching(meta, r, ch, IDX + 1)
        # leave the 12 RPO round constraints out of the assumption set (they only matter on rows 0..6 and
        # involve degree-7 products); on the last row they vanish identically (hash_flag = 1 - k0 = 0)
        memo = {}
        idx = []
        for i in idx_all:
            sup = support(r["arena"], r["roots"][i], memo)
            ncols = {int(v[1:]) for v in sup if v[0] in "cn" and v[1:].isdigit()}
            if cls != "last" and len([x for x in ncols if H <= x < H + 12]) > 8:
                continue
            idx.append(i)
        roots = load_dag(ctx, r["arena"], [r["roots"][i] for i in idx])
        assume = [ctx.is_zero(x) for x in roots]
        V_ = ctx.value

        def cur(col):
            return ctx.var(f"c{col}")

        def nxt(col):
            return ctx.var(f"n{col}")

        s = [V_(cur(S + i)) for i in range(3)]
        sn = [V_(nxt(S + i)) for i in range(3)]
        b = V_(cur(IDX) - nxt(IDX).scale(2))
        sel = lambda a, b_, c_: z3.And(s[0] == a, s[1] == b_, s[2] == c_)  # noqa: E731
        posts = [("selectors binary", z3.And([z3.Or(x == 0, x == 1) for x in s]))]
        # the next row is a hasher row too: its selector cells are binary by the same constraints one row later
        assume += [z3.Or(x == 0, x == 1) for x in sn]
        if cls == "last":
            absorb_node = z3.Or(sel(1, 0, 1), sel(1, 1, 0), sel(1, 1, 1))
            posts += [
                ("no (0,1,*) selector combination on the last row", z3.Not(z3.And(s[0] == 0, s[1] == 1))),
                ("ABP: capacity h0..h3 carried to the next row", z3.Implies(sel(1, 0, 0), z3.And([V_(nxt(H + j)) == V_(cur(H + j)) for j in range(4)]))),
                ("ABP/MPA/MVA/MUA: next row starts with s0' = 0", z3.Implies(z3.Or(sel(1, 0, 0), absorb_node), sn[0] == 0)),
                ("MPA/MVA/MUA: discarded index bit b = i - 2i' is binary", z3.Implies(absorb_node, z3.Or(b == 0, b == 1))),
                ("MPA/MVA/MUA: digest h4..h7 carried to h4'..h7' (b=0) or h8'..h11' (b=1)",
                 z3.Implies(absorb_node, z3.And([z3.If(b == 0, V_(nxt(H + 4 + j)), V_(nxt(H + 8 + j))) == V_(cur(H + 4 + j)) for j in range(4)]))),
                ("HOUT/SOUT: node index is 0 when a computation ends", z3.Implies(z3.And(s[0] == 0, s[1] == 0), V_(cur(IDX)) == 0)),
            ]
        else:
            keep = z3.And(sn[1] == s[1], sn[2] == s[2])
            if cls == "before-last":
                posts.append(("s1, s2 kept unless the next row is an output row", z3.Implies(z3.Not(z3.And(sn[0] == 0, sn[1] == 0)), keep)))
            else:
                posts.append(("s1, s2 kept inside the cycle", keep))
            if cls == "first":
                start_mp = z3.Or(sel(1, 0, 1), sel(1, 1, 0), sel(1, 1, 1))
                posts += [("MP/MV/MU start: discarded index bit is binary", z3.Implies(start_mp, z3.Or(b == 0, b == 1))),
                          ("other first rows keep the node index", z3.Implies(z3.Not(start_mp), V_(nxt(IDX)) == V_(cur(IDX))))]
            else:
                posts.append(("node index kept inside the cycle", V_(nxt(IDX)) == V_(cur(IDX))))
        pos = classes[cls]
        pvals = [per[i][pos] for i in range(len(per))]

        def replay(env, idx_all=idx_all, pvals=pvals):
            W = meta.W
            cu, nx = [0] * W, [0] * W
            for k, v in env.items():
                if k[0] == "c" and k[1:].isdigit():
                    cu[int(k[1:])] = v
                if k[0] == "n" and k[1:].isdigit():
                    nx[int(k[1:])] = v
            cu[ch], nx[ch] = 0, 0
            out = airq.run_jobs([{"kind": "eval", "cur": [str(x) for x in cu], "next": [str(x) for x in nx], "per": [str(x) for x in pvals]}], "c04_eval")[0]
            return all(int(out["results"][i]) == 0 for i in idx_all)

        cov["hasher_constraints"] = len(idx_all)
        # on rows 0..6 the replay would also have to satisfy the RPO round relation: only the last-row class is replayed natively
        decide_all(ctx, assume, posts, V, f"hasher-{cls}", cov, rng, replay if cls == "last" else (lambda env: None))


def run(meta, V, rng, cov):
    run_range(meta, V, rng, cov)
    run_selectors(meta, V, rng, cov)
    run_bitwise(meta, V, rng, cov)
    run_memory(meta, V, rng, cov)
    run_hasher(meta, V, rng, cov)


if __name__ == "__main__":
    import random
    from common import Verdict
    meta = airq.get_meta()
    V = Verdict(PROP)
    cov = dict(queries=0, solver_time_s=0.0)
    which = sys.argv[1:] or ["range", "selectors", "bitwise", "memory"]
    for w in which:
        globals()["run_" + w](meta, V, random.Random(0), cov)
    for o in V.obligations:
        print(o)
