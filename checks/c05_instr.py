"""C05, instruction level (Engine D): every instruction form of the reference table is assembled by
the real assembler, its MAST executed symbolically (real op bodies from MIR) on a stack of depth 18,
and z3 compares every path with the reference: final stack item by item (incl. items below position
15 and zeros shifted in), failure exactly in the documented failing case."""
import os
import random
import re
import sys
import time

import z3

sys.path.insert(0, os.path.dirname(os.path.abspath(__file__)))
sys.path.insert(0, os.path.join(os.path.dirname(os.path.abspath(__file__)), "..", "spec"))
import procops  # noqa: E402
from procops import airq, mirsym, opsum, pm  # noqa: E402
import airsolve  # noqa: E402
import instrs as ispec  # noqa: E402
import masmsym  # noqa: E402
from common import Verdict, log, save_replay, seed, tier  # noqa: E402
from field import P, Lin  # noqa: E402
from mir_parse import Unsupported  # noqa: E402
from mirsym import En, F, I  # noqa: E402

PROP = "C05"
TMO = int(os.environ.get("VERIF_INSTR_TIMEOUT_MS", "60000"))
K = 2  # items below the top 16 in the initial state


def item_cond(ctx, got, want, s, v, init_depth):
    gv = ctx.value(got.l)
    if isinstance(want, Lin):
        return ctx.eq(got.l, want)
    t = want[0]
    if t == "int":
        return gv == want[1]
    if t == "same":
        return ctx.eq(got.l, s[want[1]])
    if t == "ite":
        return z3.If(want[1], ctx.eq(got.l, want[2]), ctx.eq(got.l, want[3]))
    if t == "depth":
        return gv == init_depth
    if t == "divq":
        a, b = v[want[1]], v[want[2]]
        pr = ctx.imul(gv, b)
        return z3.And(gv < 2**32, pr <= a, a - pr < b)
    if t == "divr":
        a, b = v[want[1]], v[want[2]]
        return z3.And(gv < b, gv <= a)
    if t == "any":
        return z3.BoolVal(True)  # characterised by the spec's `relation` over several items
    raise ValueError(want)


LAZY_FEASIBILITY = {"ext2inv"}


def check_instruction(meta, interp, name, root, V, cov):
    fn = ispec.all_instrs()[name]
    # instructions whose branch conditions are products of symbolic field elements (extension-field
    # arithmetic): fork without asking the solver, infeasible paths fall out at the per-path checks
    lazy = name in LAZY_FEASIBILITY
    interp.lazy_feasibility = lazy
    try:
        paths = masmsym.run_mast(interp, meta, root, overflow_items=K)
    except Unsupported as e:
        V.add(f"instr:{name}", "not-covered", detail=f"outside the interpreter's subset: {e}")
        return
    finally:
        interp.lazy_feasibility = False
    cov["paths"] += len(paths)
    n_ok = 0
    for pi, res in enumerate(paths):
        tag = f"instr:{name}#p{pi}"
        if res.outcome != "ok":
            V.add(tag, "inconclusive", detail=str(res.value)[:200])
            continue
        ctx = res.ctx
        init = res.info["init"]
        s = [x.l for x in init]
        v = [ctx.value(l) for l in s]
        sp = fn(ctx, s, v)
        pre = sp.get("pre", z3.BoolVal(True))
        fail = sp.get("fail", z3.BoolVal(False))
        solver = z3.Solver()
        solver.set("timeout", TMO)
        solver.add(ctx.side)
        solver.add(res.pc)
        solver.add(pre)
        if "pre" in sp:
            cov["queries"] += 1
            solver.set("timeout", 10000)
            r0 = solver.check()
            solver.set("timeout", TMO)
        if "pre" in sp and r0 == z3.unsat:
            continue  # excluded by the documented precondition (an `unknown` proceeds: every obligation is decided separately)
        assume = list(res.pc) + [pre]
        kind = res.value[0]
        posts = []
        if kind == "ok":
            n_ok += 1
            final = res.value[1] + res.value[2]
            want = list(sp["out"]) + s[sp["consumed"]:]
            while len(want) < 16:
                want.append(("int", z3.IntVal(0)))  # zeros are shifted in: depth never drops below 16
            if len(final) != len(want):
                posts.append((f"stack depth {len(want)}", z3.BoolVal(False)))
            else:
                for i, (g, w) in enumerate(zip(final, want)):
                    posts.append((f"item {i}", item_cond(ctx, g, w, s, v, 16 + K)))
            if "relation" in sp:
                import inspect
                rel_fn = sp["relation"]
                args_ = (ctx, final, s, res.events) if len(inspect.signature(rel_fn).parameters) >= 4 else (ctx, final, s)
                for label, cond in rel_fn(*args_):
                    posts.append((label, cond))
            posts.append(("succeeds only outside the documented failing case", z3.Not(fail)))
        else:
            err = res.value[1]
            variant = getattr(err, "variant", str(err))
            if variant == "CycleLimitExceeded":
                continue
            if sp.get("advice"):
                # adversarial host: a hint that fails the in-VM verification makes execution fail ("does not complete")
                V.add(f"{tag}: error {variant} with a dishonest hint (allowed)", "discharged")
                continue
            posts.append((f"error {variant} only in the documented failing case", fail))
        for label, b in posts:
            t1 = time.time()
            st, info = airsolve.decide(ctx, solver, assume, b)
            cov["queries"] += 1
            cov["solver_time_s"] += time.time() - t1
            oname = f"{tag}:{label}"
            if st == "unsat":
                V.add(oname, "discharged", time.time() - t1)
            elif st == "sat":
                confirm(meta, name, res, info, label, oname, V, cov)
            else:
                V.add(oname, "inconclusive", detail=str(info)[:200])
    if n_ok == 0 and "assert" not in name:
        V.add(f"instr:{name}:some-ok-path", "inconclusive", detail="no successful path")


def reference_concrete(name, stack):
    """concrete evaluation of the reference on a concrete stack: ('ok', final list) | ('fail',) | ('undefined',)"""
    import field
    ctx = field.FieldCtx(u32_axiom=True)
    s = [Lin({}, x) for x in stack]
    v = [z3.IntVal(x) for x in stack]
    sp = ispec.all_instrs()[name](ctx, s, v)
    def tv(b):
        return z3.is_true(z3.simplify(b))
    if "pre" in sp and not tv(sp["pre"]):
        return ("undefined",)
    if "fail" in sp and tv(sp["fail"]):
        return ("fail",)
    out = []
    for w in sp["out"]:
        if isinstance(w, Lin):
            if not w.is_const():
                # products of constants: evaluate with real arithmetic
                out.append(ctx.eval_lin(w, {}))
            else:
                out.append(w.const)
        elif w[0] == "int":
            out.append(z3.simplify(w[1]).as_long() % P)
        elif w[0] == "ite":
            x = w[2] if tv(w[1]) else w[3]
            out.append(x.const)
        elif w[0] == "same":
            out.append(stack[w[1]])
        elif w[0] == "depth":
            out.append(len(stack) if len(stack) > 16 else 16)
        elif w[0] == "divq":
            out.append(stack[w[1]] // stack[w[2]])
        elif w[0] == "divr":
            out.append(stack[w[1]] % stack[w[2]])
    final = out + stack[sp["consumed"]:]
    while len(final) < 16:
        final.append(0)
    return ("ok", final)


def confirm(meta, name, res, env, label, oname, V, cov):
    """replay a solver counterexample on the native VM (real assembler + processor) and compare with
    the reference evaluated concretely"""
    c = meta.cols
    stack = [env.get(f"c{c['STACK']+i}", 0) for i in range(16)] + [env.get(f"ov{K-1-j}", 0) for j in range(K)]
    src = f"begin {name} end"
    # hint values of the model (adversarial host): handed to the native run through the scripted host
    hints = []
    for e in res.events:
        if e[0] == "host" and not isinstance(e[2], list):
            l = e[2].l
            hints.append(l.const if l.is_const() else env.get(next(iter(l.terms)), 0))
    nat = masmsym.native([{"kind": "exec_masm", "source": src, "stack": [str(x) for x in stack], "max_cycles": 100000, "hints": [str(h) for h in hints]}], "c05i")[0]
    ref = reference_concrete(name, stack)
    rep = dict(kind="exec_masm", property=PROP, source=src, stack=[str(x) for x in stack], hints=[str(h) for h in hints], native=nat, reference=[str(x) for x in ref], label=label)
    path = save_replay(PROP, "instr_" + re.sub(r"[^A-Za-z0-9_]", "_", name), rep)
    cov["native_validated"] += 1
    bad = False
    if ref[0] == "ok":
        bad = nat["status"] != "ok" or [int(x) for x in nat["stack"]] != ref[1]
    elif ref[0] == "fail":
        bad = nat["status"] == "ok"
    if bad:
        V.violation(oname, path, f"`{src}` on stack {stack[:4]}..{' with hint(s) ' + str(hints) if hints else ''}: native {nat.get('stack', nat.get('error'))!s:.120} but the reference gives {ref!s:.120}",
                    key=f"instr:{name}")
    else:
        V.add(oname, "inconclusive", detail=f"solver counterexample did not reproduce natively (stack {stack[:4]})")


def confirm_honest(meta, name, env, oname, V, cov):
    """the instruction run natively with the real (honest) default host on the model's operand"""
    c = meta.cols
    stack = [env.get(f"c{c['STACK']+i}", 0) for i in range(16)] + [env.get(f"ov{K-1-j}", 0) for j in range(K)]
    src = f"begin {name} end"
    nat = masmsym.native([{"kind": "exec_masm", "source": src, "stack": [str(x) for x in stack], "max_cycles": 100000}], "c09h")[0]
    path = save_replay(PROP, "honest_" + re.sub(r"[^A-Za-z0-9_]", "_", name), dict(kind="exec_masm", source=src, stack=[str(x) for x in stack], native=nat))
    cov["native_validated"] += 1
    if nat["status"] != "ok":
        V.violation(oname, path, f"`{src}` on operand {stack[0]} fails with the honest host: {nat.get('error')!s:.120}", key=f"honest:{name}")
    else:
        V.add(oname, "inconclusive", detail=f"solver counterexample (operand {stack[0]}) completes natively with the honest host")


_W = {}


def _worker(args):
    name, root = args
    V = Verdict(PROP)
    cov = dict(paths=0, queries=0, solver_time_s=0.0, native_validated=0)
    t0 = time.time()
    try:
        check_instruction(_W["meta"], _W["interp"], name, root, V, cov)
    except Exception as e:
        V.add(f"instr:{name}", "inconclusive", detail=f"{type(e).__name__}: {e}")
    for o in V.obligations:
        o["detail"] = None if o["detail"] is None else str(o["detail"])[:300]
    cov["slow"] = [(name, round(time.time() - t0, 1))] if time.time() - t0 > 30 else []
    cov["times"] = [(name, round(time.time() - t0, 1))]
    return V.obligations, V.violations, V.known_hit, cov


QUICK_SKIP = {"exp.255", "exp.256", "u32popcnt", "u32cto", "u32clz", "u32ctz", "u32clo", "ilog2", "lte", "lt", "gt", "gte", "u32testw"}


def run(meta, V, cov, only=None):
    names = sorted(ispec.all_instrs())
    if only:
        names = [n for n in names if n in only]
    if tier() == "quick" and not only:
        # instructions whose expansion takes minutes to explore (measured 100-700 s each: comparison
        # chains over split limbs, bit-counting loops) are left to the thorough tier
        names = [n for n in names if n not in QUICK_SKIP]
        rng = random.Random(seed())
        # quick tier: every instruction family, a seeded sample of the immediate forms
        fam = {}
        for n in names:
            fam.setdefault(n.split(".")[0], []).append(n)
        names = []
        always = {"exp.0", "exp.1", "exp.7", "exp.8", "exp.9", "exp.16", "exp.33", "u32shl.0", "u32shl.31", "u32shr.31", "u32rotl.1", "u32rotr.31"}
        for f, ns in sorted(fam.items()):
            pick = ns if len(ns) <= 4 else rng.sample(ns, 4)
            names += sorted(set(pick) | (always & set(ns)))
    asm = masmsym.assemble([f"begin {n} end" for n in names])
    todo = []
    for n, a in zip(names, asm):
        if a["status"] != "ok":
            V.add(f"instr:{n}", "inconclusive", detail=f"assembler: {a}")
            continue
        todo.append((n, a["root"]))
    _W.update(meta=meta, interp=opsum.make_interp(max_paths=2000))
    import multiprocessing as mp_
    n = int(os.environ.get("VERIF_JOBS", "0")) or max(1, min(12, (os.cpu_count() or 2) - 2))
    with mp_.get_context("fork").Pool(n) as pool:
        results = pool.map(_worker, todo, chunksize=1)
    for obs, vio, kh, pc in results:
        V.obligations += obs
        V.violations += vio
        V.known_hit += kh
        V.inconclusive += [o["name"] for o in obs if o["status"] == "inconclusive"]
        for k_, v_ in pc.items():
            cov[k_] = cov.get(k_, 0) + v_ if not isinstance(v_, list) else cov.get(k_, []) + v_
    cov["instructions"] = len(todo)


if __name__ == "__main__":
    meta = airq.get_meta()
    opsum.load_fns()
    V = Verdict(PROP)
    cov = dict(paths=0, queries=0, solver_time_s=0.0, native_validated=0)
    run(meta, V, cov, only=sys.argv[1:] or None)
    print(V.counts(), cov.get("slow"))
    print("TIMES", sorted(cov.get("times", []), key=lambda t: -t[1]))
    for o in V.obligations:
        if o["status"] != "discharged":
            print(o["name"], o["status"], (o["detail"] or "")[:200])
    for v in V.violations:
        print("VIOLATION", v)
