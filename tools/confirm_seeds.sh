#!/bin/bash
# Confirms pending seeded changes in a scratch worktree: patch applies + compiles, the existing suite
# passes with it, the demonstration fails with it and passes without it.
# usage: confirm_seeds.sh <name>...   (names under /verif/seeded/_pending)
export CARGO_NET_OFFLINE=true
WT=/tmp/wt_confirm
if [ ! -d $WT ]; then git -C /repo worktree add -q --detach $WT HEAD; fi
cd $WT
for n in "$@"; do
  D=/verif/seeded/_pending/$n
  L=$D/confirm.log
  echo "== $n $(date) repo=$(git -C /repo rev-parse --short HEAD)" > $L
  git checkout -q -- . ; git clean -fdq -e target -e DELIVER
  git checkout -q --detach $(git -C /repo rev-parse HEAD) 2>>$L
  rm -f $WT/DELIVER; ln -s $D $WT/DELIVER
  CMD=$(python3 -c "import json,re;c=json.load(open('$D/meta.json'))['demo_cmd'];print(re.sub(r'CARGO_TARGET_DIR=\S+','CARGO_TARGET_DIR=$WT/target',c))")
  echo "cmd=$CMD" >> $L
  mkdir -p $WT/processor/tests $WT/core/tests $WT/assembly/tests $WT/air/tests; (cd $WT && eval "$CMD") > $D/demo_without.log 2>&1; echo "DEMO_WITHOUT_PATCH exit=$?" >> $L
  git checkout -q -- . ; git clean -fdq -e target -e DELIVER
  git apply $D/patch.diff >> $L 2>&1; echo "APPLY exit=$?" >> $L
  CARGO_TARGET_DIR=$WT/target cargo nextest run --workspace --no-fail-fast --test-threads 8 --offline > $D/suite_with.log 2>&1; echo "SUITE_WITH_PATCH exit=$? $(grep -E 'Summary' $D/suite_with.log | tail -1)" >> $L
  mkdir -p $WT/processor/tests $WT/core/tests $WT/assembly/tests $WT/air/tests; (cd $WT && eval "$CMD") > $D/demo_with.log 2>&1; echo "DEMO_WITH_PATCH exit=$?" >> $L
  git checkout -q -- . ; git clean -fdq -e target -e DELIVER
  grep -E "^(DEMO_|SUITE_|APPLY)" $L
done
rm -f $WT/DELIVER
