#!/usr/bin/env python3
"""move a confirmed pending seed to /verif/seeded/<dirname>/ with a meta.json recording what was run"""
import json, os, shutil, sys
pending, dirname, detected = sys.argv[1], sys.argv[2], sys.argv[3]
src = f"/verif/seeded/_pending/{pending}"
dst = f"/verif/seeded/{dirname}"
os.makedirs(dst, exist_ok=True)
shutil.copy(f"{src}/patch.diff", f"{dst}/patch.diff")
if os.path.exists(f"{dst}/demo"):
    shutil.rmtree(f"{dst}/demo")
shutil.copytree(f"{src}/demo", f"{dst}/demo")
m = json.load(open(f"{src}/meta.json"))
log = open(f"{src}/confirm.log").read()
lines = [l for l in log.splitlines() if l.startswith(("==", "cmd=", "DEMO_", "SUITE_", "APPLY"))]
meta = {
    "property": m["property"],
    "summary": m["summary"],
    "needs": m["needs"],
    "author": "independent sub-agent given only the property text and a scratch worktree",
    "confirmed_by_me": {
        "how": "tools/confirm_seeds.sh in scratch worktree /tmp/wt_confirm (removed afterwards): demo on unchanged sources, git apply patch, full nextest suite, demo with patch",
        "log": lines,
    },
    "demo_cmd": m["demo_cmd"],
    "detected_by": detected,
}
json.dump(meta, open(f"{dst}/meta.json", "w"), indent=1)
print("kept", dst)
